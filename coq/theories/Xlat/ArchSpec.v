(** C02, specification: what the architecture (resp. the definition of the
    method) assigns to an address.

    Written from the architecture manuals (Intel SDM vol. 3 ch. 4; AMD APM
    vol. 2 (PSE-40); Arm ARM DDI 0487 D8.3 "translation table descriptor
    formats" incl. FEAT_LPA / FEAT_LPA2; Arm ARM DDI 0406 B3.5 short-descriptor
    format; RISC-V privileged spec 4.3-4.5 (Sv39/48/57); z/Architecture
    Principles of Operation ch. 3 "dynamic address translation"), not from the
    C code: one generic recursive walk over the table levels, parametrised by a
    per-format [decode] of one (already masked) table entry.

    Numbering: the virtual address is cut into the fields of the paging form,
    field 0 is the byte offset inside a page, field [i >= 1] is the index into
    the level-[i] table (level 1 = the table whose entries map pages).  [lo i]
    is the bit position where field [i] starts.

    Outside the specification (the library documents no check, the spec masks
    exactly like for a page): reserved-bit faults, misaligned superpages,
    permission bits.  The "invalid" class is: AArch64 block descriptor at a
    level that has none / reserved descriptor type at the last level, RISC-V
    pointer at the last level, s390x table-type mismatch, non-canonical
    (sign-extended formats) or too-big (zero-extended formats) input address. *)
From Coq Require Import NArith ZArith List Bool.
From KdV Require Import Base.Wrap64 Xlat.Step.
Import ListNotations.
Local Open Scope N_scope.

(** bit field [x[lo+n-1 : lo]] *)
Definition bits (lo n x : N) : N := (x / 2^lo) mod 2^n.
Definition bit (i x : N) : bool := N.testbit x i.

(** position of field [i]: sum of the sizes of the fields below it *)
Definition lo (fs : list N) (i : nat) : N := fold_right N.add 0 (firstn i fs).
Definition total (fs : list N) : N := fold_right N.add 0 fs.
Definition field (fs : list N) (i : nat) (va : N) : N := bits (lo fs i) (nth i fs 0) va.

(** what one table entry says *)
Inductive dec :=
| DTable (a : aspace) (base : N)     (* next-lower table (level 1: the page) starts at [base] *)
| DLeaf (base sz : N)                (* maps the naturally aligned 2^sz-byte region to [base] *)
| DHugeDir (a : aspace) (base sh : N) (* the region of this entry is cut into 2^sh-byte huge pages
                                         whose last-level-format entries form a table at [base] *)
| DNotPresent
| DInvalid.

Inductive addrcheck := Unsigned | Signed | NoCheck.

Record archfmt := {
  af_ptesz : N;                                           (* bytes per table entry *)
  af_check : addrcheck;
  af_decode : aspace -> list N -> nat -> N -> N -> dec    (* target_as, fields, level, entry, va *)
}.

(** input-address rule *)
Definition addr_ok (c : addrcheck) (fs : list N) (va : N) : bool :=
  let t := total fs in
  match c with
  | NoCheck => true
  | Unsigned => va / 2^t =? 0                                (* bits 63:t are zero *)
  | Signed =>                                                (* bits 63:t-1 all equal *)
      let top := va / 2^(t - 1) in
      (top =? 0) || (top =? 2^(64 - (t - 1)) - 1)
  end.

Section Walk.
Variable readmem : aspace -> N -> rdres.
Variable af : archfmt.
Variable tgt : aspace.         (* address space of the result and of the table pointers *)
Variable pte_mask : N.         (* bits the caller declares "not part of the entry" *)
Variable fs : list N.
Variable va : N.

Definition rd_entry (a : aspace) (addr : N) : rdres :=
  match readmem a addr with
  | RdOk v => RdOk (N.ldiff (v mod 2^(8 * af_ptesz af)) pte_mask)
  | e => e
  end.

(** walk from the level-[lvl] table at [tbase] *)
Fixpoint arch_levels (lvl : nat) (tas : aspace) (tbase : N) : outcome :=
  match lvl with
  | O => (OK, Some (tgt, w (tbase + va mod 2^(nth 0 fs 0))))
  | S l =>
    match rd_entry tas (w (tbase + field fs lvl va * af_ptesz af)) with
    | RdErr e => (e, None)
    | RdOk pte =>
      match af_decode af tgt fs lvl pte va with
      | DTable a b => arch_levels l a b
      | DLeaf b sz => (OK, Some (tgt, w (b + va mod 2^sz)))
      | DHugeDir a b sh =>
        let roff := va mod 2^(lo fs lvl) in          (* offset inside this entry's region *)
        match rd_entry a (w (b + roff / 2^sh * af_ptesz af)) with
        | RdErr e => (e, None)
        | RdOk hpte =>
          match af_decode af tgt fs 1 hpte va with
          | DTable _ pb | DLeaf pb _ => (OK, Some (tgt, w (pb + roff mod 2^sh)))
          | DNotPresent => (NOTPRESENT, None)
          | DInvalid | DHugeDir _ _ _ => (INVALID, None)
          end
        end
      | DNotPresent => (NOTPRESENT, None)
      | DInvalid => (INVALID, None)
      end
    end
  end.

Definition arch_walk (root_as : aspace) (root : N) : outcome :=
  match root_as with
  | NOADDR => (NODATA, None)                     (* no root: nothing to walk *)
  | _ =>
    if addr_ok (af_check af) fs va
    then arch_levels (length fs - 1) root_as root
    else (INVALID, None)
  end.
End Walk.

(** * Per-format entry decoders *)

(** Intel 64 / AMD64, 4-level and 5-level (level 1 PT, 2 PD, 3 PDPT, 4 PML4, 5 PML5);
    MAXPHYADDR = 52 *)
Definition dec_x86_64 (tgt : aspace) (fs : list N) (lvl : nat) (e va : N) : dec :=
  if negb (bit 0 e) then DNotPresent else
  match lvl with
  | 1%nat => DLeaf (bits 12 40 e * 2^12) 12
  | 2%nat => if bit 7 e then DLeaf (bits 21 31 e * 2^21) 21 else DTable tgt (bits 12 40 e * 2^12)
  | 3%nat => if bit 7 e then DLeaf (bits 30 22 e * 2^30) 30 else DTable tgt (bits 12 40 e * 2^12)
  | _ => DTable tgt (bits 12 40 e * 2^12)
  end.
Definition af_x86_64 := {| af_ptesz := 8; af_check := Signed; af_decode := dec_x86_64 |}.

(** IA-32 without PAE, 4-MByte pages with PSE-36/PSE-40:
    PA[31:22] = PDE[31:22], PA[39:32] = PDE[20:13] *)
Definition dec_ia32 (tgt : aspace) (fs : list N) (lvl : nat) (e va : N) : dec :=
  if negb (bit 0 e) then DNotPresent else
  match lvl with
  | 1%nat => DLeaf (bits 12 20 e * 2^12) 12
  | _ => if bit 7 e then DLeaf (bits 22 10 e * 2^22 + bits 13 8 e * 2^32) 22
         else DTable tgt (bits 12 20 e * 2^12)
  end.
Definition af_ia32 := {| af_ptesz := 4; af_check := Unsigned; af_decode := dec_ia32 |}.

(** IA-32 PAE (level 1 PT, 2 PD with 2-MByte pages, 3 PDPT) *)
Definition dec_ia32_pae (tgt : aspace) (fs : list N) (lvl : nat) (e va : N) : dec :=
  if negb (bit 0 e) then DNotPresent else
  match lvl with
  | 1%nat => DLeaf (bits 12 40 e * 2^12) 12
  | 2%nat => if bit 7 e then DLeaf (bits 21 31 e * 2^21) 21 else DTable tgt (bits 12 40 e * 2^12)
  | _ => DTable tgt (bits 12 40 e * 2^12)
  end.
Definition af_ia32_pae := {| af_ptesz := 8; af_check := Unsigned; af_decode := dec_ia32_pae |}.

(** AArch64 VMSAv8-64.  [oa l e] is the output address with its low [l] bits
    cleared; which (granule, region size) pairs admit a block descriptor is
    table D8-* of the manual. *)
Inductive a64 := A64 | A64_LPA | A64_LPA2.

Definition a64_oa (v : a64) (l e : N) : N :=
  match v with
  | A64 => bits l (48 - l) e * 2^l                               (* OA[47:l] = e[47:l] *)
  | A64_LPA => bits l (48 - l) e * 2^l + bits 12 4 e * 2^48      (* + OA[51:48] = e[15:12] *)
  | A64_LPA2 => bits l (50 - l) e * 2^l + bits 8 2 e * 2^50      (* OA[49:l] = e[49:l], OA[51:50] = e[9:8] *)
  end.

Definition a64_block_ok (v : a64) (granule span : N) : bool :=
  match v, granule with
  | A64, 12 => (span =? 21) || (span =? 30)                      (* 4K: 2M, 1G *)
  | A64, 14 => span =? 25                                        (* 16K: 32M *)
  | A64, 16 => span =? 29                                        (* 64K: 512M *)
  | A64_LPA, 16 => (span =? 29) || (span =? 42)                  (* 64K + LPA: 512M, 4T *)
  | A64_LPA2, 12 => (span =? 21) || (span =? 30) || (span =? 39) (* 4K + LPA2: 2M, 1G, 512G *)
  | A64_LPA2, 14 => (span =? 25) || (span =? 36)                 (* 16K + LPA2: 32M, 64G *)
  | _, _ => false
  end.

Definition dec_aarch64 (v : a64) (tgt : aspace) (fs : list N) (lvl : nat) (e va : N) : dec :=
  let granule := nth 0 fs 0 in
  if negb (bit 0 e) then DNotPresent else
  if bit 1 e then
    (* table descriptor, at the last level: page descriptor *)
    match lvl with
    | 1%nat => DLeaf (a64_oa v granule e) granule
    | _ => DTable tgt (a64_oa v granule e)
    end
  else
    (* block descriptor, at the last level: reserved *)
    match lvl with
    | 1%nat => DInvalid
    | _ => let span := lo fs lvl in
           if a64_block_ok v granule span then DLeaf (a64_oa v span e) span else DInvalid
    end.
Definition af_aarch64 (v : a64) :=
  {| af_ptesz := 8; af_check := NoCheck; af_decode := dec_aarch64 v |}.

(** Arm VMSAv7 short-descriptor format (level 2 = first-level table, level 1 =
    second-level table) *)
Definition dec_arm (tgt : aspace) (fs : list N) (lvl : nat) (e va : N) : dec :=
  let type := bits 0 2 e in
  if type =? 0 then DNotPresent else
  match lvl with
  | 1%nat =>
      if type =? 1 then DLeaf (bits 16 16 e * 2^16) 16            (* large page, 64K *)
      else DLeaf (bits 12 20 e * 2^12) 12                         (* small page *)
  | _ =>
      if type =? 1 then DTable tgt (bits 10 22 e * 2^10)          (* page table *)
      else if bit 18 e then                                       (* supersection, 16M, 40-bit PA *)
        DLeaf (bits 24 8 e * 2^24 + bits 20 4 e * 2^32 + bits 5 4 e * 2^36) 24
      else DLeaf (bits 20 12 e * 2^20) 20                         (* section, 1M *)
  end.
Definition af_arm := {| af_ptesz := 4; af_check := NoCheck; af_decode := dec_arm |}.

(** RISC-V Sv39 / Sv48 / Sv57: V = bit 0, R/W/X = bits 3:1, PPN = bits 53:10;
    a leaf at a level that spans 2^s bytes maps a 2^s-byte superpage *)
Definition dec_riscv64 (tgt : aspace) (fs : list N) (lvl : nat) (e va : N) : dec :=
  if negb (bit 0 e) then DNotPresent else
  if bits 1 3 e =? 0 then
    match lvl with
    | 1%nat => DInvalid                                           (* pointer at the last level *)
    | _ => DTable tgt (bits 10 44 e * 2^12)
    end
  else
    let s := lo fs lvl in
    DLeaf (bits (s - 2) (56 - s) e * 2^s) s.                      (* PPN[.. : s-12] << s *)
Definition af_riscv64 := {| af_ptesz := 8; af_check := Signed; af_decode := dec_riscv64 |}.

(** z/Architecture DAT (level 1 page table, 2 segment table, 3 region-third,
    4 region-second, 5 region-first table).  Entry bits in LSB-0 numbering:
    region/segment entries: I = bit 5, TT = bits 3:2, TL = bits 1:0, TF = bits
    7:6, FC = bit 10; page-table entries: I = bit 10.  TF/TL are compared with
    the two leftmost bits of the next-lower index. *)
Definition dec_s390x (tgt : aspace) (fs : list N) (lvl : nat) (e va : N) : dec :=
  match lvl with
  | 1%nat => if bit 10 e then DNotPresent else DLeaf (bits 12 52 e * 2^12) 12
  | _ =>
    if bit 5 e then DNotPresent else
    if negb (bits 2 2 e =? N.of_nat (lvl - 2)) then DInvalid else
    match lvl with
    | 2%nat => if bit 10 e then DLeaf (bits 20 44 e * 2^20) 20          (* EDAT-1, 1M *)
               else DTable tgt (bits 11 53 e * 2^11)
    | _ =>
      if Nat.eqb lvl 3 && bit 10 e then DLeaf (bits 31 33 e * 2^31) 31    (* EDAT-2, 2G *)
      else
        let nxt := field fs (lvl - 1) va in
        let top2 := nxt / 2^(nth (lvl - 1) fs 0 - 2) in
        if (top2 <? bits 6 2 e) || (bits 0 2 e <? top2) then DNotPresent
        else DTable tgt (bits 12 52 e * 2^12)
    end
  end.
Definition af_s390x := {| af_ptesz := 8; af_check := Unsigned; af_decode := dec_s390x |}.

(** plain tables of page frame numbers (the method's definition): a zero entry
    is "not present", otherwise the entry is the frame number of the next
    table / of the page *)
Definition dec_pfn (tgt : aspace) (fs : list N) (lvl : nat) (e va : N) : dec :=
  if e =? 0 then DNotPresent else DTable tgt (w (e * 2^(nth 0 fs 0))).
Definition af_pfn32 := {| af_ptesz := 4; af_check := Unsigned; af_decode := dec_pfn |}.
Definition af_pfn64 := {| af_ptesz := 8; af_check := Unsigned; af_decode := dec_pfn |}.

(** Linux on 64-bit POWER (hash MMU, 64K base pages, RPN shift 30): a software
    layout, transcribed from the kernel headers
    (arch/powerpc/include/asm/book3s/64/{hash-64k,pgtable,hugetlb}.h of the
    kernels that use PTE_RPN_SHIFT = 30).  Directory entries hold kernel
    virtual addresses.  An entry is: none (0); a huge PTE (low two bits not
    00) mapping the whole region of the entry; a huge-page directory (top bit
    clear; bits 5:2 index the MMU page-size table) ; or a pointer to the
    next-lower table (flag bits below the table's natural alignment ignored). *)
Definition ppc64_mmu_pshift : list N := [12; 14; 16; 16; 18; 20; 22; 23; 24; 26; 28; 30; 34; 36].

Definition dec_ppc64 (rpn_shift : N) (tgt : aspace) (fs : list N) (lvl : nat) (e va : N) : dec :=
  if e =? 0 then DNotPresent else
  match lvl with
  | 1%nat => DTable tgt (w (e / 2^rpn_shift * 2^(nth 0 fs 0)))
  | _ =>
    if negb (bits 0 2 e =? 0) then DLeaf (w (e / 2^rpn_shift * 2^(nth 0 fs 0))) (lo fs lvl)
    else if negb (bit 63 e) then
      let sh := nth (N.to_nat (bits 2 4 e)) ppc64_mmu_pshift 0 in
      if sh =? 0 then DInvalid
      else DHugeDir KVADDR (bits 6 57 e * 2^6 + 2^63) sh
    else
      let k := 3 + nth (lvl - 1) fs 0 in
      DTable KVADDR (bits k (64 - k) e * 2^k)
  end.
Definition af_ppc64_rpn30 := {| af_ptesz := 8; af_check := NoCheck; af_decode := dec_ppc64 30 |}.

Definition arch_of (f : ptefmt) : option archfmt :=
  match f with
  | PTE_X86_64 => Some af_x86_64
  | PTE_IA32 => Some af_ia32
  | PTE_IA32_PAE => Some af_ia32_pae
  | PTE_AARCH64 => Some (af_aarch64 A64)
  | PTE_AARCH64_LPA => Some (af_aarch64 A64_LPA)
  | PTE_AARCH64_LPA2 => Some (af_aarch64 A64_LPA2)
  | PTE_ARM => Some af_arm
  | PTE_RISCV64 => Some af_riscv64
  | PTE_S390X => Some af_s390x
  | PTE_PFN32 => Some af_pfn32
  | PTE_PFN64 => Some af_pfn64
  | PTE_PPC64_LINUX_RPN30 => Some af_ppc64_rpn30
  | PTE_NONE | PTE_RISCV32 => None
  end.

(** * The other method kinds (their definitions in addrxlat.h) *)

(** linear: target = source + offset (mod 2^64) *)
Definition spec_linear (tgt : aspace) (off : Z) (addr : N) : outcome :=
  (OK, Some (tgt, Z.to_N ((Z.of_N addr + off) mod 2^64)%Z)).

(** lookup: the first object [orig, orig + endoff] that contains the address;
    the offset inside the object is preserved *)
Fixpoint spec_lookup (tgt : aspace) (endoff : N) (tbl : list (N * N)) (addr : N) : outcome :=
  match tbl with
  | [] => (NOTPRESENT, None)
  | (orig, dest) :: tbl' =>
      if (orig <=? addr) && (addr - orig <=? endoff)
      then (OK, Some (tgt, w (dest + (addr - orig))))
      else spec_lookup tgt endoff tbl' addr
  end.

(** memory array: element [addr >> shift] of the array holds the target frame
    number; the low [shift] bits are copied *)
Definition spec_memarr (readmem : aspace -> N -> rdres) (tgt base_as : aspace)
           (base shift elemsz valsz addr : N) : outcome :=
  if negb ((valsz =? 4) || (valsz =? 8)) then (NOTIMPL, None) else
  match readmem base_as (w (base + w (addr / 2^shift * elemsz))) with
  | RdErr e => (e, None)
  | RdOk v => (OK, Some (tgt, w (w ((v mod 2^(8 * valsz)) * 2^shift) + addr mod 2^shift)))
  end.

(** everything the engine "walk-spec" evaluates *)
Definition spec_meth (readmem : aspace -> N -> rdres) (m : meth) (addr : N) : option outcome :=
  match m_kind m with
  | KNone => Some (NOMETH, None)
  | KCustom _ _ => None
  | KLinear off => Some (spec_linear (m_target m) off addr)
  | KPgt ras root mask pf =>
      (* a form with more levels than the architecture has is "not implemented" *)
      if (pf_max_fields (pte_format pf) <? length (fieldsz pf))%nat then Some (NOTIMPL, None) else
      match arch_of (pte_format pf) with
      | Some af => Some (arch_walk readmem af (m_target m) mask (fieldsz pf) addr ras root)
      | None => None
      end
  | KLookup endoff tbl => Some (spec_lookup (m_target m) endoff tbl addr)
  | KMemarr bas base shift elemsz valsz =>
      Some (spec_memarr readmem (m_target m) bas base shift elemsz valsz addr)
  end.
