(** C02: [pgt_x86_64], [pgt_ia32_pae], [pgt_ia32] on one table entry do what the
    Intel/AMD manuals say ([dec_x86_64], [dec_ia32_pae], [dec_ia32]). *)
From Coq Require Import NArith ZArith List Bool Lia.
From KdV Require Import Base.Wrap64 Xlat.Step Xlat.ArchSpec Xlat.XBits Xlat.WalkProofs.
Import ListNotations.
Local Open Scope N_scope.

(** * x86-64 *)

Definition x86_64_form (fs : list N) : Prop := fs = [12;9;9;9;9] \/ fs = [12;9;9;9;9;9].

Section X86_64.
Variable readmem : aspace -> N -> rdres.
Variable tgt : aspace.
Variable mask : N.
Variable pf : pform.
Variable va : N.
Hypothesis Hfmt : pte_format pf = PTE_X86_64.
Hypothesis Hform : x86_64_form (fieldsz pf).

Lemma x86_64_facts : form_facts (fieldsz pf) /\ nth 0 (fieldsz pf) 0 = 12 /\
  lo (fieldsz pf) 2 = 21 /\ lo (fieldsz pf) 3 = 30 /\ (5 <= length (fieldsz pf))%nat.
Proof. destruct Hform as [-> | ->]; (split; [apply form_facts_of; reflexivity|]); cbn; repeat split; lia. Qed.

Lemma sim_x86_64 : sim readmem af_x86_64 tgt mask pf va.
Proof.
  destruct x86_64_facts as (Hff & Hf0 & Hlo2 & Hlo3 & Hlen).
  intros l s Hl1 Hl Hr Hidx Hes. unfold sim_at, rd_entry, next_step_pgt. rewrite Hfmt.
  unfold pgt_x86_64, read_pte64, read64. cbn [af_ptesz af_x86_64 af_decode].
  change (8 * 8) with 64.
  destruct (readmem (s_as s) (s_base s)) as [v|e]; [|intro He; destruct e; try contradiction; eexists; reflexivity].
  set (pte := N.ldiff (v mod 2^64) mask).
  unfold dec_x86_64, bit, elemsz_last, ADDR_MASK.
  cbn [set_raw set_base set_addr s_remain s_base s_as s_elemsz s_idx s_raw].
  destruct (N.testbit pte 0); cbn [negb]; [|eexists; reflexivity].
  rewrite Hr.
  destruct l as [|[|[|[|l]]]]; [lia| | | |]; cbn [Nat.eqb andb].
  - (* level 1: page *)
    apply (page_leaf pf va); cbn [s_remain s_idx s_base]; auto; try lia.
    rewrite frame by lia. reflexivity.
  - (* level 2 *)
    destruct (N.testbit pte 7).
    + apply (huge_leaf pf va) with (l := 2%nat); cbn [s_remain s_idx s_base]; auto.
      rewrite frame by lia. reflexivity.
    + eexists. split; [reflexivity|]. step_simpl.
      rewrite frame by lia. repeat split; auto.
  - (* level 3 *)
    destruct (N.testbit pte 7).
    + apply (huge_leaf pf va) with (l := 3%nat); cbn [s_remain s_idx s_base]; auto.
      rewrite frame by lia. reflexivity.
    + eexists. split; [reflexivity|]. step_simpl.
      rewrite frame by lia. repeat split; auto.
  - (* levels 4, 5 *)
    eexists. split; [reflexivity|]. step_simpl.
    rewrite frame by lia. repeat split; auto.
Qed.

End X86_64.


Theorem x86_64_refines_arch readmem tgt mask pf va ras root fuel :
  pte_format pf = PTE_X86_64 -> x86_64_form (fieldsz pf) ->
  (forall a x, readmem a x <> RdErr OK) -> va < 2^64 ->
  (length (fieldsz pf) <= fuel)%nat ->
  observe (addrxlat_walk readmem {| m_kind := KPgt ras root mask pf; m_target := tgt |} fuel (init_step va))
  = arch_walk readmem af_x86_64 tgt mask (fieldsz pf) va ras root.
Proof.
  intros Hfmt Hform Herr Hva Hfuel.
  apply pgt_refines_arch; auto.
  - now apply sim_x86_64.
  - now rewrite Hfmt.
  - now rewrite Hfmt.
  - rewrite Hfmt. destruct Hform as [-> | ->]; cbn; lia.
  - destruct Hform as [-> | ->]; wf_by_compute.
Qed.

(** * IA-32 with PAE *)

Section PAE.
Variable readmem : aspace -> N -> rdres.
Variable tgt : aspace.
Variable mask : N.
Variable pf : pform.
Variable va : N.
Hypothesis Hfmt : pte_format pf = PTE_IA32_PAE.
Hypothesis Hform : fieldsz pf = [12;9;9;2].

Lemma sim_ia32_pae : sim readmem af_ia32_pae tgt mask pf va.
Proof.
  assert (Hff : form_facts (fieldsz pf)) by (rewrite Hform; apply form_facts_of; reflexivity).
  assert (Hf0 : nth 0 (fieldsz pf) 0 = 12) by now rewrite Hform.
  assert (Hlo2 : lo (fieldsz pf) 2 = 21) by now rewrite Hform.
  assert (Hlen : length (fieldsz pf) = 4%nat) by now rewrite Hform.
  intros l s Hl1 Hl Hr Hidx Hes. unfold sim_at, rd_entry, next_step_pgt. rewrite Hfmt.
  unfold pgt_ia32_pae, read_pte64, read64. cbn [af_ptesz af_ia32_pae af_decode].
  change (8 * 8) with 64.
  destruct (readmem (s_as s) (s_base s)) as [v|e]; [|intro He; destruct e; try contradiction; eexists; reflexivity].
  set (pte := N.ldiff (v mod 2^64) mask).
  unfold dec_ia32_pae, bit, elemsz_last, ADDR_MASK. step_simpl.
  destruct (N.testbit pte 0); cbn [negb]; [|eexists; reflexivity].
  rewrite Hr.
  destruct l as [|[|[|l]]]; [lia| | |]; cbn [Nat.eqb andb].
  - apply (page_leaf pf va); step_simpl; auto; try lia.
    rewrite frame by lia. reflexivity.
  - destruct (N.testbit pte 7).
    + apply (huge_leaf pf va) with (l := 2%nat); step_simpl; auto; try lia.
      rewrite frame by lia. reflexivity.
    + eexists. split; [reflexivity|]. step_simpl.
      rewrite frame by lia. repeat split; auto.
  - eexists. split; [reflexivity|]. step_simpl.
    rewrite frame by lia. repeat split; auto.
Qed.
End PAE.

Theorem ia32_pae_refines_arch readmem tgt mask pf va ras root fuel :
  pte_format pf = PTE_IA32_PAE -> fieldsz pf = [12;9;9;2] ->
  (forall a x, readmem a x <> RdErr OK) -> va < 2^64 ->
  (length (fieldsz pf) <= fuel)%nat ->
  observe (addrxlat_walk readmem {| m_kind := KPgt ras root mask pf; m_target := tgt |} fuel (init_step va))
  = arch_walk readmem af_ia32_pae tgt mask (fieldsz pf) va ras root.
Proof.
  intros Hfmt Hform Herr Hva Hfuel.
  apply pgt_refines_arch; auto.
  - now apply sim_ia32_pae.
  - now rewrite Hfmt.
  - now rewrite Hfmt.
  - rewrite Hfmt, Hform. cbn. lia.
  - rewrite Hform; wf_by_compute.
Qed.

(** * IA-32 without PAE *)

Section IA32.
Variable readmem : aspace -> N -> rdres.
Variable tgt : aspace.
Variable mask : N.
Variable pf : pform.
Variable va : N.
Hypothesis Hfmt : pte_format pf = PTE_IA32.
Hypothesis Hform : fieldsz pf = [12;10;10].

Lemma sim_ia32 : sim readmem af_ia32 tgt mask pf va.
Proof.
  assert (Hff : form_facts (fieldsz pf)) by (rewrite Hform; apply form_facts_of; reflexivity).
  assert (Hf0 : nth 0 (fieldsz pf) 0 = 12) by now rewrite Hform.
  assert (Hlo2 : lo (fieldsz pf) 2 = 22) by now rewrite Hform.
  assert (Hlen : length (fieldsz pf) = 3%nat) by now rewrite Hform.
  intros l s Hl1 Hl Hr Hidx Hes. unfold sim_at, rd_entry, next_step_pgt. rewrite Hfmt.
  unfold pgt_ia32, read_pte32, read32. cbn [af_ptesz af_ia32 af_decode].
  change (8 * 4) with 32.
  destruct (readmem (s_as s) (s_base s)) as [v|e]; [|intro He; destruct e; try contradiction; eexists; reflexivity].
  set (pte := N.ldiff (v mod 2^32) mask).
  assert (Hpte : pte < 2^32).
  { unfold pte. apply ldiff_lt. apply N.mod_lt, pow2_nz. }
  unfold dec_ia32, bit, elemsz_last, ADDR_MASK. step_simpl.
  destruct (N.testbit pte 0); cbn [negb]; [|eexists; reflexivity].
  rewrite Hr.
  destruct l as [|[|[|l]]]; [lia| | |lia]; cbn [Nat.eqb andb].
  - apply (page_leaf pf va); step_simpl; auto; try lia.
    rewrite (frame_lt pte 12 32) by (auto; lia). reflexivity.
  - destruct (N.testbit pte 7).
    + apply (huge_leaf pf va) with (l := 2%nat); step_simpl; auto; try lia.
      rewrite (frame_lt pte 22 32) by (auto; lia).
      rewrite land_ones_bits, shiftr_bits. cbn [N.add].
      rewrite wshl_small by (apply bits_mul_lt; lia).
      rewrite N.lor_comm. rewrite lor_disjoint_add.
      * change (32 - 22) with 10. change (0 + 13) with 13. lia.
      * apply N.lt_le_trans with (2^10 * 2^22); [|now apply N.eq_le_incl].
        apply N.mul_lt_mono_pos_r; [apply pow2_pos|apply bits_lt].
    + eexists. split; [reflexivity|]. step_simpl.
      rewrite (frame_lt pte 12 32) by (auto; lia). repeat split; auto.
Qed.
End IA32.

Theorem ia32_refines_arch readmem tgt mask pf va ras root fuel :
  pte_format pf = PTE_IA32 -> fieldsz pf = [12;10;10] ->
  (forall a x, readmem a x <> RdErr OK) -> va < 2^64 ->
  (length (fieldsz pf) <= fuel)%nat ->
  observe (addrxlat_walk readmem {| m_kind := KPgt ras root mask pf; m_target := tgt |} fuel (init_step va))
  = arch_walk readmem af_ia32 tgt mask (fieldsz pf) va ras root.
Proof.
  intros Hfmt Hform Herr Hva Hfuel.
  apply pgt_refines_arch; auto.
  - now apply sim_ia32.
  - now rewrite Hfmt.
  - now rewrite Hfmt.
  - rewrite Hfmt, Hform. cbn. lia.
  - rewrite Hform; wf_by_compute.
Qed.
