(** C02: [pgt_s390x] (with fixes/02) and [pgt_arm] on one table entry do what the
    z/Architecture Principles of Operation resp. the Arm ARM (short-descriptor
    format) say ([dec_s390x], [dec_arm]). *)
From Coq Require Import NArith ZArith List Bool Lia.
From KdV Require Import Base.Wrap64 Xlat.Step Xlat.ArchSpec Xlat.XBits Xlat.WalkProofs.
Import ListNotations.
Local Open Scope N_scope.

(** * s390x: 2 to 5 table levels *)

Definition s390x_form (fs : list N) : Prop :=
  fs = [12;8;11] \/ fs = [12;8;11;11] \/ fs = [12;8;11;11;11] \/ fs = [12;8;11;11;11;11].

Lemma s390x_layout fs : s390x_form fs ->
  form_facts fs /\ (3 <= length fs <= 8)%nat /\ nth 0 fs 0 = 12 /\ lo fs 2 = 20 /\
  ((3 < length fs)%nat -> lo fs 3 = 31) /\
  forall l, (2 <= l)%nat -> (l < length fs)%nat -> nth l fs 0 = 11.
Proof.
  intro Hform.
  repeat (destruct Hform as [Hf | Hform]; [rewrite Hf | ]); try rewrite Hform;
  (split; [apply form_facts_of; reflexivity|]); cbn [length nth];
  (split; [lia|]); (split; [reflexivity|]); (split; [reflexivity|]);
  (split; [intro; try lia; reflexivity|]);
  intros l H2 Hl; cbn [length] in Hl;
  do 6 (destruct l as [|l]; try lia; try reflexivity).
Qed.

Lemma of_nat_eqb_small x n : (n <= 3)%nat -> x < 4 ->
  (x =? N.of_nat n) = Nat.eqb (N.to_nat x) n.
Proof.
  intros Hn Hx. destruct (N.eqb_spec x (N.of_nat n)) as [->|Hne].
  - rewrite Nnat.Nat2N.id. symmetry. apply Nat.eqb_refl.
  - symmetry. apply Nat.eqb_neq. intro H. apply Hne. rewrite <- H. now rewrite Nnat.N2Nat.id.
Qed.

Section S390X.
Variable readmem : aspace -> N -> rdres.
Variable tgt : aspace.
Variable mask : N.
Variable pf : pform.
Variable va : N.
Hypothesis Hfmt : pte_format pf = PTE_S390X.
Hypothesis Hform : s390x_form (fieldsz pf).
Notation fs := (fieldsz pf).

Lemma sim_s390x : sim readmem af_s390x tgt mask pf va.
Proof.
  destruct (s390x_layout _ Hform) as (Hff & Hlen & Hf0 & Hlo2 & Hlo3 & Hf11).
  intros l s Hl1 Hl Hr Hidx Hes. unfold sim_at, rd_entry, next_step_pgt. rewrite Hfmt.
  unfold pgt_s390x, read_pte64, read64. cbn [af_ptesz af_s390x af_decode].
  change (8 * 8) with 64.
  destruct (readmem (s_as s) (s_base s)) as [x|e]; [|intro He; destruct e; try contradiction; eexists; reflexivity].
  set (pte := N.ldiff (x mod 2^64) mask).
  assert (Hpte : pte < 2^64) by (unfold pte; apply ldiff_lt, N.mod_lt, pow2_nz).
  unfold dec_s390x, bit, elemsz_last, ADDR_MASK. rewrite !PTE_VAL_bits. step_simpl.
  rewrite (testbit_bits pte 10), (testbit_bits pte 5). rewrite Hr.
  destruct l as [|[|[|l]]]; [lia| | |].
  - (* page-table entry *)
    cbn [Nat.ltb Nat.leb Nat.eqb andb orb Nat.sub].
    destruct (bits 10 1 pte =? 0); cbn [negb]; [|eexists; reflexivity].
    apply (page_leaf pf va); step_simpl; auto; try lia.
    rewrite (frame_lt pte 12 64) by (auto; lia). reflexivity.
  - (* segment-table entry *)
    cbn [Nat.ltb Nat.leb Nat.eqb andb orb Nat.sub N.of_nat].
    rewrite !orb_false_r.
    destruct (bits 5 1 pte =? 0); cbn [negb]; [|eexists; reflexivity].
    destruct (bits 2 2 pte =? 0); cbn [negb]; [|eexists; reflexivity].
    destruct (bits 10 1 pte =? 0); cbn [negb].
    + eexists. split; [reflexivity|]. step_simpl.
      rewrite (frame_lt pte 11 64) by (auto; lia). repeat split; auto.
    + apply (huge_leaf pf va) with (l := 2%nat); step_simpl; auto.
      rewrite (frame_lt pte 20 64) by (auto; lia). reflexivity.
  - (* region-table entries *)
    replace ((1 <? S (S (S l)))%nat) with true by reflexivity.
    replace ((2 <=? S (S (S l)))%nat) with true by reflexivity.
    replace ((3 <=? S (S (S l)))%nat) with true by reflexivity.
    replace (Nat.eqb (S (S (S l))) 1) with false by reflexivity.
    replace (Nat.eqb (S (S (S l))) 2) with false by reflexivity.
    cbn [andb orb].
    rewrite !orb_false_r.
    destruct (bits 5 1 pte =? 0); cbn [negb]; [|eexists; reflexivity].
    destruct (bits 2 2 pte =? N.of_nat (S (S (S l)) - 2)); cbn [negb]; [|eexists; reflexivity].
    assert (Hnext : nthN (split_fields fs va) (S (S (S l)) - 1) = field fs (S (S (S l)) - 1) va)
      by (apply split_fields_nth; lia).
    assert (Hpg : N.land (N.shiftr (nthN (s_idx s) (S (S (S l)) - 1)) 9) (N.ones 32)
                  = field fs (S (S (S l)) - 1) va / 2^(nth (S (S (S l)) - 1) fs 0 - 2)).
    { rewrite Hidx, Hnext. rewrite Hf11 by lia. change (11 - 2) with 9.
      rewrite N.shiftr_div_pow2, N.land_ones. apply N.mod_small.
      pose proof (field_lt fs (S (S (S l)) - 1) va) as Hfl. rewrite Hf11 in Hfl by lia.
      apply N.le_lt_trans with (field fs (S (S (S l)) - 1) va).
      - apply N.div_le_upper_bound; [apply pow2_nz|].
        pose proof (pow2_pos 9). nia.
      - apply N.lt_trans with (2^11); [exact Hfl|reflexivity]. }
    rewrite Hpg. clear Hpg.
    set (top2 := field fs (S (S (S l)) - 1) va / 2^(nth (S (S (S l)) - 1) fs 0 - 2)).
    destruct l as [|l].
    + (* region-third table: EDAT-2 *)
      cbn [Nat.eqb andb].
      destruct (bits 10 1 pte =? 0); cbn [negb].
      * destruct ((top2 <? bits 6 2 pte) || (bits 0 2 pte <? top2)); [eexists; reflexivity|].
        eexists. split; [reflexivity|]. step_simpl.
        rewrite (frame_lt pte 12 64) by (auto; lia). repeat split; auto.
      * apply (huge_leaf pf va) with (l := 3%nat); step_simpl; auto.
        rewrite (frame_lt pte 31 64) by (auto; lia). reflexivity.
    + cbn [Nat.eqb andb].
      destruct ((top2 <? bits 6 2 pte) || (bits 0 2 pte <? top2)); [eexists; reflexivity|].
      eexists. split; [reflexivity|]. step_simpl.
      rewrite (frame_lt pte 12 64) by (auto; lia). repeat split; auto.
Qed.
End S390X.

Theorem s390x_refines_arch readmem tgt mask pf va ras root fuel :
  pte_format pf = PTE_S390X -> s390x_form (fieldsz pf) ->
  (forall a x, readmem a x <> RdErr OK) -> va < 2^64 ->
  (length (fieldsz pf) <= fuel)%nat ->
  observe (addrxlat_walk readmem {| m_kind := KPgt ras root mask pf; m_target := tgt |} fuel (init_step va))
  = arch_walk readmem af_s390x tgt mask (fieldsz pf) va ras root.
Proof.
  intros Hfmt Hform Herr Hva Hfuel.
  destruct (s390x_layout _ Hform) as (Hff & Hlen & _).
  apply pgt_refines_arch; auto.
  - now apply sim_s390x.
  - now rewrite Hfmt.
  - now rewrite Hfmt.
  - rewrite Hfmt. repeat (destruct Hform as [Hf | Hform]; [rewrite Hf; cbn; lia | ]). rewrite Hform; cbn; lia.
  - cbn [af_check af_s390x]. split; [lia|]. split; [apply Hff|apply Hff].
Qed.

(** * Arm short-descriptor format *)

Section ARM.
Variable readmem : aspace -> N -> rdres.
Variable tgt : aspace.
Variable mask : N.
Variable pf : pform.
Variable va : N.
Hypothesis Hfmt : pte_format pf = PTE_ARM.
Hypothesis Hform : fieldsz pf = [12;8;12].
Notation fs := (fieldsz pf).

Lemma arm_idx : split_fields fs va = [bits 0 12 va; bits 12 8 va; bits 20 12 va; va / 2^32].
Proof.
  rewrite Hform. cbn [split_fields]. rewrite !land_ones_bits, !shiftr_bits, !N.shiftr_div_pow2.
  repeat rewrite N.div_div by apply pow2_nz. repeat rewrite <- N.pow_add_r.
  repeat rewrite N.div_div by apply pow2_nz. repeat rewrite <- N.pow_add_r. reflexivity.
Qed.

Lemma sim_arm : sim readmem af_arm tgt mask pf va.
Proof.
  assert (Hff : form_facts fs) by (rewrite Hform; apply form_facts_of; reflexivity).
  intros l s Hl1 Hl Hr Hidx Hes. rewrite arm_idx in Hidx.
  unfold sim_at, rd_entry, next_step_pgt. rewrite Hfmt.
  unfold pgt_arm, read_pte32, read32. cbn [af_ptesz af_arm af_decode].
  change (8 * 4) with 32.
  destruct (readmem (s_as s) (s_base s)) as [x|e]; [|intro He; destruct e; try contradiction; eexists; reflexivity].
  set (pte := N.ldiff (x mod 2^32) mask).
  assert (Hpte : pte < 2^32) by (unfold pte; apply ldiff_lt, N.mod_lt, pow2_nz).
  unfold dec_arm, bit, add_overlap, ADDR_MASK. rewrite !PTE_VAL_bits. step_simpl.
  rewrite (testbit_bits pte 18).
  destruct (bits 0 2 pte =? 0); [eexists; reflexivity|].
  assert (Hlen : length fs = 3%nat) by now rewrite Hform.
  assert (Hlo2 : lo fs 2 = 20) by now rewrite Hform.
  rewrite Hr. unfold nthN. rewrite Hform.
  destruct l as [|[|[|l]]]; [lia| | |lia]; cbn [Nat.ltb Nat.leb Nat.sub nth].
  - (* second-level descriptor *)
    destruct (bits 0 2 pte =? 1).
    + (* large page *)
      cbn [N.leb N.compare Pos.compare Pos.compare_cont]. step_simpl.
      eexists. split; [reflexivity|]. step_simpl. rewrite Hidx.
      cbn [set_nth length nthN nth]. repeat split; auto; try lia.
      rewrite (frame_lt pte 16 32) by (auto; lia).
      rewrite land_ones_bits, bits_bits by lia.
      rewrite wshl_small by (apply bits_mul_lt; lia).
      rewrite wadd_small.
      2:{ pose proof (bits_lt 0 12 va). pose proof (bits_mul_lt (12+0) 4 va 12 ltac:(lia)).
          rewrite W_pow. change (2^64) with (2^12 + (2^64 - 2^12)). lia. }
      cbn [N.add].
      assert (Hoff : bits 0 12 va + bits 12 4 va * 2^12 = va mod 2^16).
      { rewrite N.add_comm. change (bits 12 4 va) with (bits (0 + 12) 4 va).
        rewrite bits_join, bits_0_n. reflexivity. }
      rewrite Hoff. reflexivity.
    + (* small page *)
      eexists. split; [reflexivity|]. step_simpl. rewrite Hidx.
      cbn [length nthN nth]. repeat split; auto; try lia.
      rewrite (frame_lt pte 12 32) by (auto; lia). rewrite bits_0_n. reflexivity.
  - (* first-level descriptor *)
    destruct (bits 0 2 pte =? 1); cbn [negb].
    + (* page table *)
      eexists. split; [reflexivity|]. step_simpl.
      rewrite (frame_lt pte 10 32) by (auto; lia). repeat split; auto.
    + destruct (bits 18 1 pte =? 0); cbn [negb].
      * (* section *)
        apply (huge_leaf pf va _ 2%nat _ 20 Hff); step_simpl; auto; try lia.
        -- rewrite Hidx. symmetry. apply arm_idx.
        -- rewrite (frame_lt pte 20 32) by (auto; lia). reflexivity.
      * (* supersection *)
        cbn [N.leb N.compare Pos.compare Pos.compare_cont]. step_simpl.
        unfold pgt_huge_page, nthN. step_simpl. rewrite Hform, Hidx, Hr.
        cbn [firstn Nat.sub all_lt64 forallb N.ltb N.compare Pos.compare Pos.compare_cont andb negb
             set_nth huge_loop nthN nth Nat.min].
        eexists. split; [reflexivity|]. step_simpl. cbn [length nthN nth set_nth].
        repeat split; auto; try lia.
        rewrite N.lor_0_l.
        (* the widened second-level index *)
        assert (Hidx1 : wadd (bits 12 8 va) (wshl (N.land (bits 20 12 va) (N.ones 4)) 8) = bits 12 12 va).
        { rewrite land_ones_bits, bits_bits by lia. cbn [N.add].
          rewrite wshl_small by (apply bits_mul_lt; lia).
          rewrite wadd_small.
          2:{ pose proof (bits_lt 12 8 va). pose proof (bits_mul_lt 20 4 va 8 ltac:(lia)).
              rewrite W_pow. change (2^64) with (2^8 + (2^64 - 2^8)). lia. }
          rewrite N.add_comm. change (bits 20 4 va) with (bits (12 + 8) 4 va).
          rewrite bits_join. reflexivity. }
        rewrite Hidx1. clear Hidx1.
        (* base *)
        rewrite (frame_lt pte 24 32) by (auto; lia).
        rewrite !wshl_small by (apply bits_mul_lt; lia).
        change (32 - 24) with 8.
        assert (Hb1 : N.lor (bits 24 8 pte * 2^24) (bits 20 4 pte * 2^32)
                      = bits 24 8 pte * 2^24 + bits 20 4 pte * 2^32).
        { rewrite N.lor_comm, lor_disjoint_add; [lia|].
          apply N.lt_le_trans with (2^8 * 2^24); [|now apply N.eq_le_incl].
          apply N.mul_lt_mono_pos_r; [apply pow2_pos|apply bits_lt]. }
        rewrite Hb1.
        assert (Hb2 : N.lor (bits 24 8 pte * 2^24 + bits 20 4 pte * 2^32) (bits 5 4 pte * 2^36)
                      = bits 24 8 pte * 2^24 + bits 20 4 pte * 2^32 + bits 5 4 pte * 2^36).
        { rewrite N.lor_comm, lor_disjoint_add; [lia|].
          pose proof (bits_lt 24 8 pte) as B1. pose proof (bits_lt 20 4 pte) as B2.
          change (2^8) with 256 in B1. change (2^4) with 16 in B2.
          change (2^24) with 16777216. change (2^32) with 4294967296. change (2^36) with 68719476736.
          lia. }
        rewrite Hb2. clear Hb1 Hb2.
        (* offset *)
        rewrite N.lor_comm, lor_disjoint_add by apply bits_lt.
        change (bits 12 12 va) with (bits (0 + 12) 12 va).
        rewrite bits_join, bits_0_n. reflexivity.
Qed.
End ARM.

Theorem arm_refines_arch readmem tgt mask pf va ras root fuel :
  pte_format pf = PTE_ARM -> fieldsz pf = [12;8;12] ->
  (forall a x, readmem a x <> RdErr OK) -> va < 2^64 ->
  (length (fieldsz pf) <= fuel)%nat ->
  observe (addrxlat_walk readmem {| m_kind := KPgt ras root mask pf; m_target := tgt |} fuel (init_step va))
  = arch_walk readmem af_arm tgt mask (fieldsz pf) va ras root.
Proof.
  intros Hfmt Hform Herr Hva Hfuel.
  apply pgt_refines_arch; auto.
  - now apply sim_arm.
  - now rewrite Hfmt.
  - now rewrite Hfmt.
  - rewrite Hfmt, Hform. cbn. lia.
  - rewrite Hform; wf_by_compute.
Qed.
