(** Bit-field lemma library for C02: relates the masks and shifts of the C code
    ([N.land], [N.ldiff], [N.lor], [N.shiftr], [N.shiftl], [N.testbit]) to the
    arithmetic bit field [bits lo n x = (x / 2^lo) mod 2^n] the specification is
    written with. *)
From Coq Require Import NArith ZArith List Bool Lia.
From KdV Require Import Base.Wrap64 Xlat.Step Xlat.ArchSpec.
Import ListNotations.
Local Open Scope N_scope.

Lemma pow2_nz n : 2^n <> 0.
Proof. apply N.pow_nonzero; discriminate. Qed.

Lemma pow2_pos n : 0 < 2^n.
Proof. pose proof (pow2_nz n). lia. Qed.

Lemma W_pow : W = 2^64.
Proof. rewrite W_val. reflexivity. Qed.

Lemma bits_lt lo n x : bits lo n x < 2^n.
Proof. unfold bits. apply N.mod_lt, pow2_nz. Qed.

Lemma bits_0_n n x : bits 0 n x = x mod 2^n.
Proof. unfold bits. change (2^0) with 1. now rewrite N.div_1_r. Qed.

Lemma bits_n_0 lo x : bits lo 0 x = 0.
Proof. unfold bits. change (2^0) with 1. apply N.mod_1_r. Qed.

Lemma land_ones_bits x n : N.land x (N.ones n) = bits 0 n x.
Proof. rewrite bits_0_n. apply N.land_ones. Qed.

Lemma shiftr_bits x k lo n : bits lo n (N.shiftr x k) = bits (lo + k) n x.
Proof.
  unfold bits. rewrite N.shiftr_div_pow2. rewrite N.div_div by apply pow2_nz.
  rewrite <- N.pow_add_r. now rewrite (N.add_comm k lo).
Qed.

Lemma PTE_VAL_bits x s n : PTE_VAL x s n = bits s n x.
Proof. unfold PTE_VAL. rewrite land_ones_bits, shiftr_bits. reflexivity. Qed.

Lemma div_bits x lo k n : bits lo n (x / 2^k) = bits (lo + k) n x.
Proof. rewrite <- N.shiftr_div_pow2. apply shiftr_bits. Qed.

Lemma lor_disjoint_add a b k : b < 2^k -> N.lor (a * 2^k) b = a * 2^k + b.
Proof.
  intro H.
  assert (Hd : N.land (a * 2^k) b = 0).
  { apply N.bits_inj_0. intro i. rewrite N.land_spec.
    destruct (N.ltb_spec i k).
    - rewrite N.mul_pow2_bits_low by assumption. reflexivity.
    - destruct (N.eq_dec b 0) as [->|Hb]. + rewrite N.bits_0. apply andb_false_r.
      + assert (N.log2 b < k) by (apply N.log2_lt_pow2; lia).
        rewrite (N.bits_above_log2 b i) by lia. apply andb_false_r. }
  rewrite <- N.lxor_lor by exact Hd. rewrite <- N.add_nocarry_lxor by exact Hd. reflexivity.
Qed.

Lemma lor_shl_add a b k : b < 2^k -> N.lor (N.shiftl a k) b = a * 2^k + b.
Proof. intro H. rewrite N.shiftl_mul_pow2. now apply lor_disjoint_add. Qed.

Lemma bits_join x lo n m : bits (lo + n) m x * 2^n + bits lo n x = bits lo (n + m) x.
Proof.
  unfold bits. rewrite N.pow_add_r, N.pow_add_r.
  rewrite <- N.div_div by apply pow2_nz.
  set (y := x / 2^lo).
  rewrite (N.mod_mul_r y (2^n) (2^m)) by apply pow2_nz. lia.
Qed.

Lemma ldiff_ones_div x n : N.ldiff x (N.ones n) = x / 2^n * 2^n.
Proof. rewrite N.ldiff_ones_r, N.shiftl_mul_pow2, N.shiftr_div_pow2. reflexivity. Qed.

Lemma mod_div_pow2 x a b : (x mod 2^(a + b)) / 2^a = (x / 2^a) mod 2^b.
Proof.
  rewrite N.pow_add_r.
  rewrite N.mod_mul_r by apply pow2_nz.
  rewrite N.mul_comm, N.div_add by apply pow2_nz.
  rewrite N.div_small by (apply N.mod_lt; apply pow2_nz).
  reflexivity.
Qed.

(** [(x & ADDR_MASK(hi)) & ~ADDR_MASK(lo)] is the field [x[hi-1:lo]] in place *)
Lemma frame x lo hi : lo <= hi ->
  N.ldiff (N.land x (N.ones hi)) (N.ones lo) = bits lo (hi - lo) x * 2^lo.
Proof.
  intro H. rewrite ldiff_ones_div, N.land_ones. unfold bits. f_equal.
  replace hi with (lo + (hi - lo)) at 1 by lia. apply mod_div_pow2.
Qed.

(** the same for a value known to be below [2^hi] *)
Lemma frame_lt x lo hi : x < 2^hi -> lo <= hi ->
  N.ldiff x (N.ones lo) = bits lo (hi - lo) x * 2^lo.
Proof.
  intros Hx H. rewrite <- (frame x lo hi H). rewrite N.land_ones, N.mod_small by exact Hx. reflexivity.
Qed.

Lemma bits_mul_pow2 x lo n k : bits (lo + k) n (x * 2^k) = bits lo n x.
Proof.
  unfold bits. rewrite N.pow_add_r, (N.mul_comm (2^lo)), <- N.div_div by apply pow2_nz.
  rewrite N.div_mul by apply pow2_nz. reflexivity.
Qed.

Lemma mod_mod_pow2 y a b : a <= b -> (y mod 2^b) mod 2^a = y mod 2^a.
Proof.
  intro H. replace b with (a + (b - a)) by lia. rewrite N.pow_add_r.
  rewrite N.mod_mul_r by apply pow2_nz.
  rewrite (N.mul_comm (2^a)), N.mod_add by apply pow2_nz.
  apply N.mod_mod, pow2_nz.
Qed.

(** a field of a field *)
Lemma bits_bits x lo n lo' n' : lo' + n' <= n ->
  bits lo' n' (bits lo n x) = bits (lo + lo') n' x.
Proof.
  intro H. unfold bits.
  replace n with (lo' + (n - lo')) at 1 by lia.
  rewrite mod_div_pow2. rewrite N.div_div by apply pow2_nz. rewrite <- N.pow_add_r.
  apply mod_mod_pow2. lia.
Qed.

Lemma bits_small x lo n : x < 2^lo -> bits lo n x = 0.
Proof. intro H. unfold bits. rewrite N.div_small by exact H. apply N.mod_0_l, pow2_nz. Qed.

Lemma testbit_bits x i : N.testbit x i = negb (bits i 1 x =? 0).
Proof.
  unfold bits. rewrite N.testbit_eqb. change (2^1) with 2.
  pose proof (N.mod_upper_bound (x / 2^i) 2).
  destruct ((x / 2^i) mod 2) as [|[| |]] eqn:E; try reflexivity; lia.
Qed.

Lemma bits_1_cases x i : bits i 1 x = 0 \/ bits i 1 x = 1.
Proof. pose proof (bits_lt i 1 x). change (2^1) with 2 in H. lia. Qed.

Lemma w_mod x : w x = x mod 2^64.
Proof. unfold w. now rewrite W_pow. Qed.

Lemma w_small' x : x < 2^64 -> w x = x.
Proof. intro H. apply w_small. now rewrite W_pow. Qed.

Lemma w_idem x : w (w x) = w x.
Proof. unfold w. apply N.mod_mod, W_nz. Qed.

Lemma w_add_l a b : w (w a + b) = w (a + b).
Proof. unfold w. apply N.add_mod_idemp_l, W_nz. Qed.

Lemma w_add_r a b : w (a + w b) = w (a + b).
Proof. unfold w. apply N.add_mod_idemp_r, W_nz. Qed.

Lemma wshl_small a k : a * 2^k < 2^64 -> wshl a k = a * 2^k.
Proof. intro H. unfold wshl. rewrite N.shiftl_mul_pow2. now apply w_small'. Qed.

Lemma wshl_mul a k : wshl a k = w (a * 2^k).
Proof. unfold wshl. now rewrite N.shiftl_mul_pow2. Qed.

Lemma pow2_le_mono a b : a <= b -> 2^a <= 2^b.
Proof. intro H. apply N.pow_le_mono_r; [discriminate|exact H]. Qed.

Lemma pow2_lt_mono a b : a < b -> 2^a < 2^b.
Proof. intro H. apply N.pow_lt_mono_r; [reflexivity|exact H]. Qed.

(** [(1 << k) - 1] computed in 64 bits *)
Lemma mask64 k : k < 64 -> wsub (wshl 1 k) 1 = N.ones k.
Proof.
  intro H. rewrite wshl_small by (rewrite N.mul_1_l; now apply pow2_lt_mono).
  rewrite N.mul_1_l. rewrite wsub_le.
  - rewrite N.ones_equiv. lia.
  - pose proof (pow2_pos k). lia.
  - rewrite W_pow. now apply pow2_lt_mono.
Qed.

Lemma ones_lt n : N.ones n < 2^n.
Proof. rewrite N.ones_equiv. pose proof (pow2_pos n). lia. Qed.

Lemma bits_mul_lt lo n x k : n + k <= 64 -> bits lo n x * 2^k < 2^64.
Proof.
  intro H. pose proof (bits_lt lo n x).
  apply N.lt_le_trans with (2^n * 2^k).
  - apply N.mul_lt_mono_pos_r; [apply pow2_pos|assumption].
  - rewrite <- N.pow_add_r. now apply pow2_le_mono.
Qed.

Lemma bits_all x lo n : x < 2^(lo + n) -> bits lo n x = x / 2^lo.
Proof.
  intro H. unfold bits. apply N.mod_small.
  apply N.div_lt_upper_bound; [apply pow2_nz|]. now rewrite <- N.pow_add_r.
Qed.

(** clearing bits never leaves the range *)
Lemma ldiff_lt a b n : a < 2^n -> N.ldiff a b < 2^n.
Proof.
  intro H.
  assert (Ha : N.land a (N.ones n) = a) by (rewrite N.land_ones; now apply N.mod_small).
  assert (Hl : N.land (N.ldiff a b) (N.ones n) = N.ldiff a b).
  { apply N.bits_inj. intro i. rewrite N.land_spec, !N.ldiff_spec. rewrite <- Ha at 2.
    rewrite N.land_spec.
    destruct (N.testbit a i), (N.testbit b i), (N.testbit (N.ones n) i); reflexivity. }
  rewrite <- Hl, N.land_ones. apply N.mod_lt, pow2_nz.
Qed.

(** [bits 0 2 x] from its two bits *)
Lemma bits_0_2 x : bits 0 2 x = bits 1 1 x * 2 + bits 0 1 x.
Proof. change 2 with (2^1) at 2. change 1 with (0 + 1) at 1. rewrite bits_join. reflexivity. Qed.

(** clearing the low [k] bits of a value made of a low part [x[hi-1:0]] and a
    high part above [hi] *)
Lemma ldiff_lo_hi x B hi k : k <= hi ->
  N.ldiff (bits 0 hi x + B * 2^hi) (N.ones k) = bits k (hi - k) x * 2^k + B * 2^hi.
Proof.
  intro H. rewrite ldiff_ones_div.
  replace (2^hi) with (2^(hi - k) * 2^k) by (rewrite <- N.pow_add_r; f_equal; lia).
  rewrite N.mul_assoc, N.div_add by apply pow2_nz.
  rewrite N.mul_add_distr_r. f_equal.
  f_equal. rewrite bits_0_n. replace hi with (k + (hi - k)) at 1 by lia.
  rewrite mod_div_pow2. reflexivity.
Qed.

Lemma bits_0_lt x n : bits 0 n x < 2^n.
Proof. apply bits_lt. Qed.

(** [(ppn << a) >> s << s] for [s >= a] *)
Lemma shl_clear_low x lo n a s : a <= s -> s <= a + n ->
  N.ldiff (bits lo n x * 2^a) (N.ones s) = bits (lo + (s - a)) (n - (s - a)) x * 2^s.
Proof.
  intros H1 H2. rewrite ldiff_ones_div. f_equal.
  replace (2^s) with (2^a * 2^(s - a)) by (rewrite <- N.pow_add_r; f_equal; lia).
  rewrite <- N.div_div by apply pow2_nz. rewrite N.div_mul by apply pow2_nz.
  unfold bits. replace n with ((s - a) + (n - (s - a))) at 1 by lia.
  rewrite mod_div_pow2. rewrite N.div_div by apply pow2_nz. rewrite <- N.pow_add_r. reflexivity.
Qed.

(** cutting [X * 2^p + r] (with [r < 2^p]) at a position [sh >= p] *)
Lemma cut_above X r p sh : r < 2^p -> p <= sh ->
  (X * 2^p + r) / 2^sh = (X * 2^p) / 2^sh /\
  (X * 2^p + r) mod 2^sh = (X * 2^p) mod 2^sh + r /\
  N.lor r ((X * 2^p) mod 2^sh) = (X * 2^p) mod 2^sh + r.
Proof.
  intros Hr Hp.
  assert (E : 2^sh = 2^p * 2^(sh - p)) by (rewrite <- N.pow_add_r; f_equal; lia).
  rewrite E.
  assert (D1 : (X * 2^p + r) / 2^p = X).
  { rewrite N.div_add_l by apply pow2_nz. rewrite N.div_small by exact Hr. lia. }
  assert (D2 : (X * 2^p) / 2^p = X) by (apply N.div_mul, pow2_nz).
  assert (M1 : (X * 2^p + r) mod 2^p = r).
  { rewrite N.add_comm, N.mod_add by apply pow2_nz. now apply N.mod_small. }
  assert (M2 : (X * 2^p) mod 2^p = 0) by (apply N.mod_mul, pow2_nz).
  repeat split.
  - rewrite <- !N.div_div by apply pow2_nz. now rewrite D1, D2.
  - rewrite !N.mod_mul_r by apply pow2_nz. rewrite D1, D2, M1, M2. lia.
  - rewrite N.mod_mul_r by apply pow2_nz. rewrite D2, M2, N.add_0_l.
    rewrite N.lor_comm, (N.mul_comm (2^p)). now apply lor_disjoint_add.
Qed.
