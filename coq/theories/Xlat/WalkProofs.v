(** C02, generic part of the proofs: the index split, the huge-page offset
    fold, table masks, the input-address checks, and the theorem "the step
    machine driven by [addrxlat_walk] computes the generic architectural walk",
    proved once by induction on the remaining levels from a per-format,
    non-recursive simulation of one table entry ([sim]). *)
From Coq Require Import NArith ZArith List Bool Lia.
From KdV Require Import Base.Wrap64 Xlat.Step Xlat.ArchSpec Xlat.XBits.
Import ListNotations.
Local Open Scope N_scope.

(** * Field positions *)

Lemma lo_0 fs : lo fs 0 = 0.
Proof. reflexivity. Qed.

Lemma lo_cons b fs i : lo (b :: fs) (S i) = b + lo fs i.
Proof. reflexivity. Qed.

Lemma lo_S fs : forall i, (i < length fs)%nat -> lo fs (S i) = lo fs i + nth i fs 0.
Proof.
  induction fs as [|b fs IH]; intros i Hi; cbn [length] in Hi; [lia|].
  destruct i as [|i].
  - unfold lo. cbn. lia.
  - rewrite !lo_cons. rewrite IH by lia. cbn [nth]. lia.
Qed.

Lemma lo_length fs : lo fs (length fs) = total fs.
Proof. unfold lo, total. now rewrite firstn_all. Qed.

Lemma lo_le_S fs : forall i, lo fs i <= lo fs (S i).
Proof.
  induction fs as [|b fs IH]; intro i.
  - unfold lo. rewrite !firstn_nil. reflexivity.
  - destruct i as [|i]; [unfold lo; cbn; lia|]. rewrite !lo_cons. specialize (IH i). lia.
Qed.

Lemma lo_mono fs i j : (i <= j)%nat -> lo fs i <= lo fs j.
Proof.
  induction 1 as [|j _ IH]; [reflexivity|]. pose proof (lo_le_S fs j). lia.
Qed.

Lemma lo_le_total fs i : lo fs i <= total fs.
Proof.
  destruct (Nat.le_gt_cases i (length fs)) as [H|H].
  - rewrite <- lo_length. now apply lo_mono.
  - unfold lo. rewrite firstn_all2 by lia. reflexivity.
Qed.

Lemma lo_1 fs : lo fs 1 = nth 0 fs 0.
Proof. destruct fs as [|b fs]; unfold lo; cbn; lia. Qed.

Lemma all_lt64_nth fs i : all_lt64 fs = true -> (i < length fs)%nat -> nth i fs 0 < 64.
Proof.
  unfold all_lt64. rewrite forallb_forall. intros H Hi.
  apply N.ltb_lt. apply H. now apply nth_In.
Qed.

Lemma all_lt64_firstn fs k : all_lt64 fs = true -> all_lt64 (firstn k fs) = true.
Proof.
  unfold all_lt64. rewrite !forallb_forall. intros H x Hx. apply H.
  rewrite <- (firstn_skipn k fs). apply in_or_app. now left.
Qed.

(** * The index split of [first_step_pgt_generic] *)

Lemma split_fields_length fs : forall a, length (split_fields fs a) = S (length fs).
Proof. induction fs as [|b fs IH]; intro a; cbn [split_fields length]; [reflexivity|]. now rewrite IH. Qed.

Lemma split_fields_nth_gen fs : forall k va i, (i < length fs)%nat ->
  nth i (split_fields fs (va / 2^k)) 0 = bits (k + lo fs i) (nth i fs 0) va.
Proof.
  induction fs as [|b fs IH]; intros k va i Hi; cbn [length] in Hi; [lia|].
  cbn [split_fields]. destruct i as [|i].
  - cbn [nth]. rewrite land_ones_bits, div_bits, lo_0. f_equal. lia.
  - cbn [nth]. rewrite N.shiftr_div_pow2, N.div_div by apply pow2_nz.
    rewrite <- N.pow_add_r. rewrite IH by lia. rewrite lo_cons. f_equal. lia.
Qed.

Lemma split_fields_last_gen fs : forall k va,
  nth (length fs) (split_fields fs (va / 2^k)) 0 = va / 2^(k + total fs).
Proof.
  induction fs as [|b fs IH]; intros k va; cbn [split_fields length nth].
  - unfold total. cbn. now rewrite N.add_0_r.
  - rewrite N.shiftr_div_pow2, N.div_div by apply pow2_nz. rewrite <- N.pow_add_r.
    rewrite IH. unfold total. cbn [fold_right]. f_equal. f_equal. lia.
Qed.

Lemma split_fields_nth fs va i : (i < length fs)%nat ->
  nthN (split_fields fs va) i = field fs i va.
Proof.
  intro Hi. unfold nthN, field. rewrite <- (N.div_1_r va) at 1. change 1 with (2^0).
  rewrite split_fields_nth_gen by exact Hi. reflexivity.
Qed.

Lemma split_fields_last fs va : nthN (split_fields fs va) (length fs) = va / 2^(total fs).
Proof.
  unfold nthN. rewrite <- (N.div_1_r va) at 1. change 1 with (2^0).
  rewrite split_fields_last_gen. reflexivity.
Qed.

Lemma split_fields_0 fs va : (0 < length fs)%nat ->
  nthN (split_fields fs va) 0 = va mod 2^(nth 0 fs 0).
Proof. intro H. rewrite split_fields_nth by exact H. unfold field. rewrite lo_0. apply bits_0_n. Qed.

Lemma field_lt fs i va : field fs i va < 2^(nth i fs 0).
Proof. apply bits_lt. Qed.

(** * The offset fold of [pgt_huge_page] *)

Lemma huge_loop_SS fs idx r off :
  huge_loop fs idx (S (S r)) off
  = huge_loop fs idx (S r) (wshl (N.lor off (nthN idx (S r))) (nthN fs r)).
Proof. reflexivity. Qed.

Lemma huge_loop_spec fs va : all_lt64 fs = true ->
  forall r n off, (1 <= r)%nat -> (r <= length fs)%nat ->
  lo fs r + n <= 64 ->
  off = bits (lo fs r) n va * 2^(nth (r - 1) fs 0) ->
  huge_loop fs (split_fields fs va) r off = bits (lo fs 1) (lo fs r + n - lo fs 1) va * 2^(nth 0 fs 0).
Proof.
  intro Hfs. induction r as [|r IH]; intros n off H1 Hr Hn Hoff; [lia|].
  destruct r as [|r'].
  - cbn [huge_loop]. subst off. cbn [Nat.sub]. f_equal. f_equal. lia.
  - rewrite huge_loop_SS. unfold nthN at 2.
    assert (Hr' : (S r' < length fs)%nat) by lia.
    rewrite split_fields_nth by exact Hr'. unfold field.
    replace (S (S r') - 1)%nat with (S r') in Hoff by lia.
    subst off.
    assert (HloS : lo fs (S (S r')) = lo fs (S r') + nth (S r') fs 0) by (apply lo_S; lia).
    rewrite lor_disjoint_add by apply bits_lt.
    rewrite HloS. rewrite bits_join.
    rewrite wshl_small.
    2:{ apply bits_mul_lt. pose proof (lo_S fs r' ltac:(lia)). lia. }
    rewrite (IH (nth (S r') fs 0 + n) _ ltac:(lia) ltac:(lia)).
    + f_equal. f_equal. lia.
    + lia.
    + replace (S r' - 1)%nat with r' by lia. reflexivity.
Qed.

Lemma huge_offset fs va l : all_lt64 fs = true ->
  (1 <= l)%nat -> (l <= length fs)%nat -> lo fs l <= 64 ->
  N.lor (nthN (split_fields fs va) 0) (huge_loop fs (split_fields fs va) l 0) = va mod 2^(lo fs l).
Proof.
  intros Hfs H1 Hl H64.
  rewrite (huge_loop_spec fs va Hfs l 0 0) by (try lia; now rewrite bits_n_0).
  rewrite split_fields_0 by lia. rewrite N.add_0_r.
  rewrite N.lor_comm, lor_disjoint_add by (apply N.mod_lt, pow2_nz).
  rewrite <- bits_0_n. rewrite lo_1.
  pose proof (lo_mono fs 1 l H1) as Hm. rewrite lo_1 in Hm.
  replace (bits (nth 0 fs 0)) with (bits (0 + nth 0 fs 0)) by (f_equal; lia).
  rewrite bits_join. rewrite <- bits_0_n. f_equal. lia.
Qed.

(** [pgt_huge_page] on a step whose indices are the split of [va] *)
Lemma pgt_huge_page_spec pf va s l :
  all_lt64 (fieldsz pf) = true -> (1 <= l)%nat -> (l <= length (fieldsz pf))%nat ->
  lo (fieldsz pf) l <= 64 ->
  s_remain s = l -> s_idx s = split_fields (fieldsz pf) va ->
  exists s', pgt_huge_page pf s = (OK, s') /\ s_remain s' = 1%nat /\ s_elemsz s' = 1 /\
             (1 <= length (s_idx s'))%nat /\ s_base s' = s_base s /\ s_as s' = s_as s /\
             nthN (s_idx s') 0 = va mod 2^(lo (fieldsz pf) l).
Proof.
  intros Hfs H1 Hl H64 Hr Hidx. unfold pgt_huge_page.
  rewrite all_lt64_firstn by exact Hfs. cbn [negb].
  eexists. split; [reflexivity|]. cbn [s_remain s_elemsz s_idx s_base s_as].
  rewrite Hr, Hidx.
  assert (Hlen : length (split_fields (fieldsz pf) va) = S (length (fieldsz pf))) by apply split_fields_length.
  repeat split.
  - lia.
  - destruct (split_fields (fieldsz pf) va) eqn:E; cbn [length] in Hlen; [lia|]. cbn [set_nth length]. lia.
  - destruct (split_fields (fieldsz pf) va) as [|h t] eqn:E; cbn [length] in Hlen; [lia|].
    cbn [set_nth]. unfold nthN at 1. cbn [nth]. rewrite <- E. now apply huge_offset.
Qed.

(** * Table masks *)

Lemma span_loop_spec fs : forall level ret, (level <= length fs)%nat ->
  w (span_loop fs level ret) = w (ret * 2^(lo fs level)).
Proof.
  induction level as [|l IH]; intros ret Hl; cbn [span_loop].
  - rewrite lo_0. change (2^0) with 1. now rewrite N.mul_1_r.
  - rewrite IH by lia. rewrite wshl_mul. unfold w.
    rewrite N.mul_mod_idemp_l by exact W_nz.
    f_equal. rewrite lo_S by lia. rewrite N.pow_add_r. unfold nthN. lia.
Qed.

Lemma span_loop_lt fs : forall level ret, (1 <= level)%nat -> span_loop fs level ret < W.
Proof.
  induction level as [|l IH]; intros ret Hl; [lia|]. cbn [span_loop].
  destruct l as [|l']; [cbn [span_loop]; apply w_lt|]. apply IH. lia.
Qed.

Lemma pf_table_mask_spec pf l : all_lt64 (fieldsz pf) = true ->
  (1 <= l)%nat -> (l <= length (fieldsz pf))%nat -> lo (fieldsz pf) l < 64 ->
  pf_table_mask pf l = Some (N.ones (lo (fieldsz pf) l)).
Proof.
  intros Hfs H1 Hl H64. unfold pf_table_mask. rewrite all_lt64_firstn by exact Hfs. f_equal.
  assert (Hs : span_loop (fieldsz pf) l 1 = 2^(lo (fieldsz pf) l)).
  { rewrite <- (w_small (span_loop (fieldsz pf) l 1)) by now apply span_loop_lt.
    rewrite span_loop_spec by exact Hl. rewrite N.mul_1_l. apply w_small'. now apply pow2_lt_mono. }
  rewrite Hs. rewrite wsub_le.
  - rewrite N.ones_equiv. lia.
  - pose proof (pow2_pos (lo (fieldsz pf) l)). lia.
  - rewrite W_pow. now apply pow2_lt_mono.
Qed.

Lemma pf_page_mask_spec pf : nth 0 (fieldsz pf) 0 < 64 ->
  pf_page_mask pf = Some (N.ones (nth 0 (fieldsz pf) 0)).
Proof.
  intro H. unfold pf_page_mask, nthN. destruct (N.ltb_spec (nth 0 (fieldsz pf) 0) 64); [|lia].
  f_equal. now apply mask64.
Qed.

(** * Input-address checks *)

Lemma check_uaddr_spec pf va s : s_idx s = split_fields (fieldsz pf) va ->
  step_check_uaddr pf s = if addr_ok Unsigned (fieldsz pf) va then (OK, s) else (INVALID, s).
Proof.
  intro Hidx. unfold step_check_uaddr, addr_ok. rewrite Hidx, split_fields_last. reflexivity.
Qed.

Lemma check_saddr_spec pf va s :
  s_idx s = split_fields (fieldsz pf) va -> va < 2^64 ->
  (1 <= length (fieldsz pf))%nat -> total (fieldsz pf) < 64 ->
  1 <= nth (length (fieldsz pf) - 1) (fieldsz pf) 0 ->
  step_check_saddr pf s = if addr_ok Signed (fieldsz pf) va then (OK, s) else (INVALID, s).
Proof.
  intros Hidx Hva Hn Ht Hf. unfold step_check_saddr.
  destruct (length (fieldsz pf)) as [|l1] eqn:En; [lia|].
  replace (S l1 - 1)%nat with l1 in Hf by lia. unfold nthN at 1.
  destruct (N.eqb_spec (nth l1 (fieldsz pf) 0) 0) as [E0|_]; [lia|].
  change (vaddr_bits pf) with (total (fieldsz pf)).
  destruct (N.leb_spec 64 (total (fieldsz pf))) as [E64|_]; [lia|].
  rewrite Hidx.
  replace (nthN (split_fields (fieldsz pf) va) (S l1)) with (va / 2^(total (fieldsz pf)))
    by (rewrite <- En; symmetry; apply split_fields_last).
  rewrite split_fields_nth by lia. unfold field, nthN.
  set (t := total (fieldsz pf)) in *.
  assert (Hlo : lo (fieldsz pf) l1 + nth l1 (fieldsz pf) 0 = t).
  { rewrite <- lo_S by lia. rewrite <- En. apply lo_length. }
  set (f := nth l1 (fieldsz pf) 0) in *.
  (* the sign bit *)
  assert (Hbit : N.testbit (N.shiftr (bits (lo (fieldsz pf) l1) f va) (f - 1)) 0
                 = negb (bits (t - 1) 1 va =? 0)).
  { rewrite testbit_bits. rewrite shiftr_bits. rewrite bits_bits by lia.
    replace (lo (fieldsz pf) l1 + (0 + (f - 1))) with (t - 1) by lia. reflexivity. }
  rewrite Hbit. clear Hbit.
  unfold addr_ok. fold t.
  (* arithmetic: top = 2 * hi + b *)
  set (top := va / 2^(t - 1)).
  assert (Hhi : va / 2^t = top / 2).
  { unfold top. rewrite N.div_div by (try apply pow2_nz; discriminate).
    replace (2^(t-1) * 2) with (2^t); [reflexivity|].
    replace t with (t - 1 + 1) at 1 by lia. rewrite N.pow_add_r. reflexivity. }
  assert (Hb : bits (t - 1) 1 va = top mod 2) by reflexivity.
  rewrite Hhi, Hb.
  assert (Hmax : N.shiftr MAXA t = 2^(64 - t) - 1).
  { rewrite N.shiftr_div_pow2. rewrite MAXA_val.
    change 18446744073709551615 with (2^64 - 1).
    replace (2^64) with (2^(64 - t) * 2^t) by (rewrite <- N.pow_add_r; f_equal; lia).
    pose proof (pow2_pos t). pose proof (pow2_pos (64 - t)).
    symmetry. apply N.div_unique with (r := 2^t - 1); [lia|]. nia. }
  rewrite Hmax.
  replace (64 - (t - 1)) with (64 - t + 1) by lia. rewrite N.pow_add_r. change (2^1) with 2.
  pose proof (pow2_pos (64 - t)) as Hp. set (P := 2^(64 - t)) in *.
  pose proof (N.div_mod top 2 ltac:(discriminate)) as Hdm.
  pose proof (N.mod_upper_bound top 2 ltac:(discriminate)) as Hmb.
  destruct (N.eqb_spec (top mod 2) 0) as [Eb|Eb]; cbn [negb].
  - destruct (N.eqb_spec (top / 2) 0) as [Eh|Eh].
    + replace top with 0 by lia. reflexivity.
    + destruct (N.eqb_spec top 0); [lia|]. destruct (N.eqb_spec top (P * 2 - 1)); [lia|]. reflexivity.
  - destruct (N.eqb_spec (top / 2) (P - 1)) as [Eh|Eh].
    + destruct (N.eqb_spec top 0); [lia|]. destruct (N.eqb_spec top (P * 2 - 1)); [reflexivity|lia].
    + destruct (N.eqb_spec top 0); [lia|]. destruct (N.eqb_spec top (P * 2 - 1)); [lia|]. reflexivity.
Qed.

(** * The generic refinement theorem *)

Definition check_of (f : ptefmt) : option addrcheck :=
  match f with
  | PTE_NONE | PTE_AARCH64 | PTE_AARCH64_LPA | PTE_AARCH64_LPA2 | PTE_ARM
  | PTE_PPC64_LINUX_RPN30 => Some NoCheck
  | PTE_PFN32 | PTE_PFN64 | PTE_IA32 | PTE_IA32_PAE | PTE_S390X => Some Unsigned
  | PTE_RISCV64 | PTE_X86_64 => Some Signed
  | PTE_RISCV32 => None
  end.

(** well-formedness of a paging form (what the architectures' forms satisfy) *)
Definition wf_form (c : addrcheck) (fs : list N) : Prop :=
  (1 <= length fs <= 8)%nat /\ all_lt64 fs = true /\
  match c with
  | Signed => total fs < 64 /\ 1 <= nth (length fs - 1) fs 0
  | _ => total fs <= 64
  end.

Section Generic.
Variable readmem : aspace -> N -> rdres.
Variable af : archfmt.
Variable tgt : aspace.
Variable mask : N.
Variable pf : pform.
Variable va : N.

Notation fs := (fieldsz pf).
Notation next := (next_step_pgt readmem tgt mask pf).

(** the entry of a huge-page directory: read like a last-level entry, whatever
    the indices are *)
Definition hugepd_leaf_sim (s : step) : Prop :=
  match rd_entry readmem af mask (s_as s) (s_base s) with
  | RdErr e => e <> OK -> exists s', next s = (e, s')
  | RdOk hpte =>
    match af_decode af tgt fs 1 hpte va with
    | DTable _ pb | DLeaf pb _ =>
        exists s', next s = (OK, s') /\ s_remain s' = 1%nat /\ s_elemsz s' = 1 /\
                   s_idx s' = s_idx s /\ s_base s' = pb
    | DNotPresent => exists s', next s = (NOTPRESENT, s')
    | DInvalid | DHugeDir _ _ _ => exists s', next s = (INVALID, s')
    end
  end.

(** one table entry: the format's next-step function does what [af_decode] says *)
Definition sim_at (l : nat) (s : step) : Prop :=
  match rd_entry readmem af mask (s_as s) (s_base s) with
  | RdErr e => e <> OK -> exists s', next s = (e, s')
  | RdOk pte =>
    match af_decode af tgt fs l pte va with
    | DTable a b =>
        exists s', next s = (OK, s') /\ s_as s' = a /\ s_base s' = b /\ s_remain s' = l /\
                   s_elemsz s' = (if Nat.eqb l 1 then 1 else s_elemsz s) /\ s_idx s' = s_idx s
    | DLeaf b sz =>
        exists s', next s = (OK, s') /\ s_remain s' = 1%nat /\ s_elemsz s' = 1 /\
                   (1 <= length (s_idx s'))%nat /\
                   w (s_base s' + nthN (s_idx s') 0) = w (b + va mod 2^sz)
    | DHugeDir a b sh =>
        (2 <= l)%nat /\
        exists s', next s = (OK, s') /\ s_remain s' = 2%nat /\ s_as s' = a /\ s_base s' = b /\
                   s_elemsz s' = s_elemsz s /\ (2 <= length (s_idx s'))%nat /\
                   nthN (s_idx s') 1 = va mod 2^(lo fs l) / 2^sh /\
                   nthN (s_idx s') 0 = (va mod 2^(lo fs l)) mod 2^sh /\
                   forall s2, s_remain s2 = 1%nat -> s_idx s2 = s_idx s' -> hugepd_leaf_sim s2
    | DNotPresent => exists s', next s = (NOTPRESENT, s')
    | DInvalid => exists s', next s = (INVALID, s')
    end
  end.

Definition sim : Prop :=
  forall l s, (1 <= l)%nat -> (l < length fs)%nat ->
    s_remain s = l -> s_idx s = split_fields fs va -> s_elemsz s = af_ptesz af ->
    sim_at l s.

Hypothesis Hsim : sim.
Hypothesis Herr : forall a x, readmem a x <> RdErr OK.

Lemma rd_entry_err a x e : rd_entry readmem af mask a x = RdErr e -> e <> OK.
Proof.
  unfold rd_entry. destruct (readmem a x) as [v|e'] eqn:E; [discriminate|].
  intro H. injection H as <-. intro He. subst e'. exact (Herr a x E).
Qed.

Lemma observe_err e s : e <> OK -> (e = NOTPRESENT \/ e = INVALID \/ True) -> observe (e, s) = (e, None).
Proof. intros H _. destruct e; try reflexivity. contradiction. Qed.

Lemma levels_refine ras root : forall l fuel s,
  (l < length fs)%nat -> (l < fuel)%nat ->
  s_remain s = S l -> s_idx s = split_fields fs va ->
  s_elemsz s = (if Nat.eqb l 0 then 1 else af_ptesz af) ->
  observe (walk_loop readmem {| m_kind := KPgt ras root mask pf; m_target := tgt |} fuel s)
  = arch_levels readmem af tgt mask fs va l (s_as s) (s_base s).
Proof.
  induction l as [|l IH]; intros fuel s Hl Hfuel Hr Hidx Hesz.
  - destruct fuel as [|fuel]; [lia|]. cbn [walk_loop]. rewrite Hr.
    unfold advance. rewrite Hidx, split_fields_length.
    destruct (Nat.leb_spec (S (length fs)) 0); [lia|].
    cbn [observe set_elemsz set_as s_as s_base m_target arch_levels].
    rewrite split_fields_0 by lia. cbn [Nat.eqb] in Hesz. rewrite Hesz.
    unfold wadd, wmul. rewrite N.mul_1_r, w_add_r. reflexivity.
  - destruct fuel as [|fuel]; [lia|]. cbn [walk_loop]. rewrite Hr.
    unfold advance. rewrite Hidx, split_fields_length.
    destruct (Nat.leb_spec (S (length fs)) (S l)); [lia|].
    cbn [next_step m_kind m_target arch_levels].
    cbn [Nat.eqb] in Hesz. rewrite Hesz.
    rewrite split_fields_nth by lia.
    set (s1 := mkstep _ _ _ _ _ _).
    assert (Hb1 : s_base s1 = w (s_base s + field fs (S l) va * af_ptesz af)).
    { unfold s1. cbn [s_base]. unfold wadd, wmul. now rewrite w_add_r. }
    assert (Hs1 : sim_at (S l) s1).
    { apply Hsim; try lia; unfold s1; reflexivity || (cbn [s_idx]; rewrite <- Hidx; reflexivity). }
    unfold sim_at in Hs1. rewrite Hb1 in Hs1. change (s_as s1) with (s_as s) in Hs1.
    destruct (rd_entry readmem af mask (s_as s) (w (s_base s + field fs (S l) va * af_ptesz af)))
      as [pte|e] eqn:Erd.
    + destruct (af_decode af tgt fs (S l) pte va) as [a b|b sz|a b sz| |] eqn:Edec.
      * destruct Hs1 as (s' & Hn & Has & Hbs & Hrem & Hes & Hix). rewrite Hn.
        rewrite IH; try lia.
        -- now rewrite Has, Hbs.
        -- rewrite Hix. unfold s1. reflexivity.
        -- rewrite Hes. unfold s1. cbn [s_elemsz]. destruct l; reflexivity.
      * destruct Hs1 as (s' & Hn & Hrem & Hes & Hlen & Hfin). rewrite Hn.
        destruct fuel as [|fuel]; [lia|]. cbn [walk_loop]. rewrite Hrem.
        unfold advance. destruct (Nat.leb_spec (length (s_idx s')) 0); [lia|].
        cbn [observe set_elemsz set_as s_as s_base m_target].
        rewrite Hes. unfold wadd, wmul. rewrite N.mul_1_r, w_add_r. now rewrite Hfin.
      * (* huge-page directory: two more steps *)
        destruct Hs1 as (Hl2 & s' & Hn & Hrem & Has & Hbs & Hes & Hlen & Hi1 & Hi0 & Hleaf). rewrite Hn.
        destruct fuel as [|fuel]; [lia|]. cbn [walk_loop]. rewrite Hrem.
        unfold advance. destruct (Nat.leb_spec (length (s_idx s')) 1); [lia|].
        cbn [next_step m_kind m_target].
        set (s2 := mkstep _ _ _ _ _ _).
        specialize (Hleaf s2 eq_refl eq_refl). unfold hugepd_leaf_sim in Hleaf.
        assert (Hb2 : s_base s2 = w (b + va mod 2^(lo fs (S l)) / 2^sz * af_ptesz af)).
        { unfold s2. cbn [s_base]. rewrite Hbs, Hi1, Hes. unfold s1. cbn [s_elemsz].
          unfold wadd, wmul. now rewrite w_add_r. }
        rewrite Hb2 in Hleaf. change (s_as s2) with (s_as s') in Hleaf. rewrite Has in Hleaf.
        destruct (rd_entry readmem af mask a (w (b + va mod 2^(lo fs (S l)) / 2^sz * af_ptesz af)))
          as [hpte|e] eqn:Erd2.
        -- assert (Hfin : forall s3 pb, next s2 = (OK, s3) -> s_remain s3 = 1%nat -> s_elemsz s3 = 1 ->
                     s_idx s3 = s_idx s2 -> s_base s3 = pb ->
                     observe (match next s2 with
                              | (OK, s2') => walk_loop readmem {| m_kind := KPgt ras root mask pf; m_target := tgt |} fuel s2'
                              | r => r end)
                     = (OK, Some (tgt, w (pb + (va mod 2^(lo fs (S l))) mod 2^sz)))).
           { intros s3 pb Hn3 Hr3 He3 Hi3 Hb3. rewrite Hn3.
             destruct fuel as [|fuel]; [lia|]. cbn [walk_loop]. rewrite Hr3.
             unfold advance. rewrite Hi3. unfold s2 at 1. cbn [s_idx].
             destruct (Nat.leb_spec (length (s_idx s')) 0); [lia|].
             cbn [observe set_elemsz set_as s_as s_base m_target].
             rewrite He3, Hb3. unfold s2. cbn [s_idx]. rewrite Hi0.
             unfold wadd, wmul. now rewrite N.mul_1_r, w_add_r. }
           destruct (af_decode af tgt fs 1 hpte va) as [a3 pb|pb sz3|a3 b3 sh3| |] eqn:Edec2.
           ++ destruct Hleaf as (s3 & Hn3 & Hr3 & He3 & Hi3 & Hb3). eapply Hfin; eauto.
           ++ destruct Hleaf as (s3 & Hn3 & Hr3 & He3 & Hi3 & Hb3). eapply Hfin; eauto.
           ++ destruct Hleaf as (s3 & Hn3). rewrite Hn3. reflexivity.
           ++ destruct Hleaf as (s3 & Hn3). rewrite Hn3. reflexivity.
           ++ destruct Hleaf as (s3 & Hn3). rewrite Hn3. reflexivity.
        -- apply rd_entry_err in Erd2. destruct (Hleaf Erd2) as (s3 & Hn3). rewrite Hn3.
           destruct e; try reflexivity. contradiction.
      * destruct Hs1 as (s' & Hn). rewrite Hn. reflexivity.
      * destruct Hs1 as (s' & Hn). rewrite Hn. reflexivity.
    + apply rd_entry_err in Erd. destruct (Hs1 Erd) as (s' & Hn). rewrite Hn.
      destruct e; try reflexivity. contradiction.
Qed.

(** first step + walk loop = architectural walk *)
Theorem pgt_refines_arch ras root fuel :
  check_of (pte_format pf) = Some (af_check af) ->
  pte_size (pte_format pf) = Some (af_ptesz af) ->
  (length fs <= pf_max_fields (pte_format pf))%nat ->
  wf_form (af_check af) fs -> va < 2^64 ->
  (length fs <= fuel)%nat ->
  observe (addrxlat_walk readmem {| m_kind := KPgt ras root mask pf; m_target := tgt |} fuel (init_step va))
  = arch_walk readmem af tgt mask fs va ras root.
Proof.
  intros Hck Hps Hmax (Hlen & Hlt & Hc) Hva Hfuel.
  unfold addrxlat_walk, arch_walk, init_step. cbn [first_step m_kind s_base].
  set (s0 := mkstep NOADDR va 0 0 [] 0).
  assert (Hgen : first_step_pgt_generic ras root pf s0 va =
                 match ras with
                 | NOADDR => (NODATA, s0)
                 | _ => (OK, mkstep ras root (length fs)
                                    (if (1 <? length fs)%nat then af_ptesz af else 1)
                                    (split_fields fs va) 0)
                 end).
  { unfold first_step_pgt_generic. destruct ras; try reflexivity;
    (destruct (Nat.ltb_spec 8 (length fs)); [lia|]);
    (destruct (Nat.ltb_spec 1 (length fs)); [rewrite Hps|]); rewrite Hlt; reflexivity. }
  set (s1 := mkstep ras root (length fs) (if (1 <? length fs)%nat then af_ptesz af else 1)
                    (split_fields fs va) 0) in *.
  assert (Hloop : observe (walk_loop readmem {| m_kind := KPgt ras root mask pf; m_target := tgt |} fuel s1)
                  = arch_levels readmem af tgt mask fs va (length fs - 1) ras root).
  { change ras with (s_as s1) at 2. change root with (s_base s1) at 2.
    apply levels_refine; try lia; unfold s1; cbn [s_remain s_idx s_elemsz]; try reflexivity; try lia.
    destruct (Nat.ltb_spec 1 (length fs)); destruct (Nat.eqb_spec (length fs - 1) 0); try reflexivity; lia. }
  assert (Hrem : s_remain s1 = S (length fs - 1)) by (unfold s1; cbn [s_remain]; lia).
  unfold first_step_pgt.
  destruct (Nat.ltb_spec (pf_max_fields (pte_format pf)) (length fs)) as [Hbad|_]; [lia|].
  destruct (pte_format pf) eqn:Ef; cbn [check_of] in Hck; cbn [pte_size] in Hps; try discriminate;
    injection Hck as Hck; rewrite <- Hck in *; rewrite Hgen;
    destruct ras; try reflexivity; fold s1;
    try (cbn [addr_ok]; rewrite Hrem; exact Hloop);
    try (rewrite (check_uaddr_spec pf va s1) by reflexivity;
         destruct (addr_ok Unsigned fs va); [rewrite Hrem; exact Hloop|reflexivity]);
    try (rewrite (check_saddr_spec pf va s1) by (try reflexivity; try lia; tauto);
         destruct (addr_ok Signed fs va); [rewrite Hrem; exact Hloop|reflexivity]).
Qed.

End Generic.

(** * Shared pieces of the per-format proofs *)

(** the facts about a paging form the proofs use *)
Record form_facts (fs : list N) : Prop := {
  ff_lt : all_lt64 fs = true;
  ff_total : total fs <= 64
}.

Lemma form_facts_of fs : all_lt64 fs = true -> total fs <=? 64 = true -> form_facts fs.
Proof. intros H1 H2. split; [exact H1|]. now apply N.leb_le. Qed.

(** generic tail of the proofs: a leaf whose size is the span of the level,
    reached through [pgt_huge_page] *)
Lemma huge_leaf pf va (s : step) l b sp :
  form_facts (fieldsz pf) -> (1 <= l)%nat -> (l < length (fieldsz pf))%nat ->
  lo (fieldsz pf) l = sp ->
  s_remain s = l -> s_idx s = split_fields (fieldsz pf) va -> s_base s = b ->
  exists s', pgt_huge_page pf s = (OK, s') /\ s_remain s' = 1%nat /\ s_elemsz s' = 1 /\
             (1 <= length (s_idx s'))%nat /\
             w (s_base s' + nthN (s_idx s') 0) = w (b + va mod 2^sp).
Proof.
  intros [Hlt Ht] H1 Hl <- Hr Hidx Hb.
  destruct (pgt_huge_page_spec pf va s l Hlt H1 ltac:(lia)) as (s' & Hh & Hr' & He' & Hlen & Hb' & _ & Hi'); auto.
  - pose proof (lo_le_total (fieldsz pf) l). lia.
  - exists s'. repeat split; auto. now rewrite Hb', Hi', Hb.
Qed.

(** a last-level page: [elemsz_last] on [remain = 1] *)
Lemma page_leaf pf va (s : step) b p :
  (1 <= length (fieldsz pf))%nat -> nth 0 (fieldsz pf) 0 = p ->
  s_remain s = 1%nat -> s_idx s = split_fields (fieldsz pf) va -> s_base s = b ->
  exists s', (OK, set_elemsz s 1) = (OK, s') /\ s_remain s' = 1%nat /\ s_elemsz s' = 1 /\
             (1 <= length (s_idx s'))%nat /\
             w (s_base s' + nthN (s_idx s') 0) = w (b + va mod 2^p).
Proof.
  intros Hn <- Hr Hidx Hb. exists (set_elemsz s 1).
  cbn [set_elemsz s_remain s_elemsz s_idx s_base]. repeat split; auto.
  - rewrite Hidx, split_fields_length. lia.
  - rewrite Hidx, split_fields_0 by lia. now rewrite Hb.
Qed.

Ltac step_simpl :=
  cbn [set_raw set_base set_addr set_elemsz set_as set_idx set_remain
       s_remain s_base s_as s_elemsz s_idx s_raw].

Ltac wf_by_compute := repeat split; cbn; try reflexivity; try lia.
