(** C02: one [addrxlat_walk] equals [addrxlat_launch] followed by
    [addrxlat_step] until [remain = 0], for every method kind; and the linear,
    lookup and memory-array methods compute their definitions. *)
From Coq Require Import NArith ZArith List Bool Lia.
From KdV Require Import Base.Wrap64 Xlat.Step Xlat.ArchSpec Xlat.XBits Xlat.WalkProofs.
Import ListNotations.
Local Open Scope N_scope.

(** * walk = launch + steps *)

(** the one thing a next-step function must not do for [addrxlat_walk]'s
    [while (--remain)] to make sense: report success with [remain = 0] *)
Definition next_keeps_remain (next : step -> status * step) : Prop :=
  forall s s', (1 <= s_remain s)%nat -> next s = (OK, s') -> (1 <= s_remain s')%nat.

Definition custom_ok (m : meth) : Prop :=
  match m_kind m with
  | KCustom _ next => next_keeps_remain next
  | _ => True
  end.

Section Loops.
Variable readmem : aspace -> N -> rdres.
Variable m : meth.
Hypothesis Hnext : next_keeps_remain (next_step readmem m).

Lemma loop_eq_steps : forall fuel s, (1 <= s_remain s)%nat ->
  walk_loop readmem m fuel s = steps readmem m fuel s.
Proof.
  induction fuel as [|fuel IH]; intros s Hr.
  - cbn [walk_loop steps]. destruct (s_remain s); [lia|reflexivity].
  - cbn [walk_loop steps]. unfold addrxlat_step.
    destruct (s_remain s) as [|r] eqn:Er; [lia|].
    destruct (advance s r) as [s1|] eqn:Ea; [|reflexivity].
    assert (Hr1 : s_remain s1 = r).
    { unfold advance in Ea. destruct (length (s_idx s) <=? r)%nat; [discriminate|].
      injection Ea as <-. reflexivity. }
    destruct r as [|r'].
    + (* last step *)
      destruct fuel; cbn [steps set_elemsz set_as s_remain]; rewrite Hr1; reflexivity.
    + destruct (next_step readmem m s1) as [st s2] eqn:En.
      destruct st; try reflexivity.
      apply IH. apply (Hnext s1 s2); [lia|exact En].
Qed.

Theorem walk_eq_launch_steps fuel s :
  addrxlat_walk readmem m fuel s = launch_steps readmem m fuel s (s_base s).
Proof.
  unfold addrxlat_walk, launch_steps, addrxlat_launch.
  destruct (first_step m s (s_base s)) as [st s'].
  destruct st; try reflexivity.
  destruct (s_remain s') as [|r] eqn:Er.
  - destruct fuel; cbn [steps]; rewrite Er; reflexivity.
  - apply loop_eq_steps. lia.
Qed.
End Loops.

(** every built-in next-step function keeps [remain >= 1] on success *)

Lemma huge_page_remain pf s s' : (1 <= s_remain s)%nat ->
  pgt_huge_page pf s = (OK, s') -> (1 <= s_remain s')%nat.
Proof.
  intros Hr. unfold pgt_huge_page.
  destruct (negb _); [discriminate|]. intro H. injection H as <-. cbn [s_remain]. lia.
Qed.

Lemma elemsz_last_remain s : s_remain (elemsz_last s) = s_remain s.
Proof. unfold elemsz_last. destruct (Nat.eqb (s_remain s) 1); reflexivity. Qed.

Lemma read_pte64_remain readmem mask s st s' pte :
  read_pte64 readmem mask s = (st, s', pte) -> s_remain s' = s_remain s.
Proof. unfold read_pte64. destruct (read64 _ _ _); intro H; injection H as _ <- _; reflexivity. Qed.

Lemma read_pte32_remain readmem mask s st s' pte :
  read_pte32 readmem mask s = (st, s', pte) -> s_remain s' = s_remain s.
Proof. unfold read_pte32. destruct (read32 _ _ _); intro H; injection H as _ <- _; reflexivity. Qed.

Lemma ok_inj (a b : step) : (OK, a) = (OK, b) -> a = b.
Proof. intro H. now inversion H. Qed.

Lemma builtin_keeps_remain readmem m :
  (match m_kind m with KCustom _ _ => False | _ => True end) ->
  next_keeps_remain (next_step readmem m).
Proof.
  intros Hk s s' Hr. unfold next_step.
  destruct (m_kind m) as [|f n|off|ras root mask pf|eo tbl|bas base sh esz vsz]; try contradiction.
  - discriminate.
  - intro H. apply ok_inj in H. subst s'. exact Hr.
  - (* page tables *)
    unfold next_step_pgt.
    destruct (pte_format pf).
    + intro H. apply ok_inj in H. subst s'. exact Hr.
    + unfold next_step_pfn32, next_step_pfn_common.
      destruct (read_pte32 readmem mask s) as [[st s1] pte] eqn:E. apply read_pte32_remain in E.
      destruct st; try discriminate.
      destruct (pte =? 0); [discriminate|]. destruct (64 <=? _); [discriminate|].
      intro H. apply ok_inj in H. subst s'. rewrite elemsz_last_remain. cbn [set_base s_remain]. lia.
    + unfold next_step_pfn64, next_step_pfn_common.
      destruct (read_pte64 readmem mask s) as [[st s1] pte] eqn:E. apply read_pte64_remain in E.
      destruct st; try discriminate.
      destruct (pte =? 0); [discriminate|]. destruct (64 <=? _); [discriminate|].
      intro H. apply ok_inj in H. subst s'. rewrite elemsz_last_remain. cbn [set_base s_remain]. lia.
    + unfold pgt_aarch64, pgt_aarch64_common.
      destruct (read_pte64 readmem mask s) as [[st s1] pte] eqn:E. apply read_pte64_remain in E.
      destruct st; try discriminate.
      destruct (_ =? 0); [discriminate|]. destruct (_ =? 1).
      * destruct (pf_table_mask _ _); [|discriminate]. destruct (_ || _); [discriminate|].
        intro H. apply huge_page_remain in H; [exact H|]. cbn [set_addr set_base s_remain]. lia.
      * destruct (pf_page_mask _); [|discriminate].
        intro H. apply ok_inj in H. subst s'. rewrite elemsz_last_remain. cbn [set_addr set_base s_remain]. lia.
    + unfold pgt_ia32.
      destruct (read_pte32 readmem mask s) as [[st s1] pte] eqn:E. apply read_pte32_remain in E.
      destruct st; try discriminate.
      destruct (negb _); [discriminate|]. destruct (_ && _).
      * intro H. apply huge_page_remain in H; [exact H|]. cbn [set_addr set_base s_remain]. lia.
      * intro H. apply ok_inj in H. subst s'. rewrite elemsz_last_remain. cbn [set_addr set_base s_remain]. lia.
    + unfold pgt_ia32_pae.
      destruct (read_pte64 readmem mask s) as [[st s1] pte] eqn:E. apply read_pte64_remain in E.
      destruct st; try discriminate.
      destruct (negb _); [discriminate|]. destruct (_ && _).
      * intro H. apply huge_page_remain in H; [exact H|]. cbn [set_addr set_base s_remain]. lia.
      * intro H. apply ok_inj in H. subst s'. rewrite elemsz_last_remain. cbn [set_addr set_base s_remain]. lia.
    + unfold pgt_x86_64.
      destruct (read_pte64 readmem mask s) as [[st s1] pte] eqn:E. apply read_pte64_remain in E.
      destruct st; try discriminate.
      destruct (negb _); [discriminate|]. destruct (_ && _); [|destruct (_ && _)].
      * intro H. apply huge_page_remain in H; [exact H|]. cbn [set_addr set_base s_remain]. lia.
      * intro H. apply huge_page_remain in H; [exact H|]. cbn [set_addr set_base s_remain]. lia.
      * intro H. apply ok_inj in H. subst s'. rewrite elemsz_last_remain. cbn [set_addr set_base s_remain]. lia.
    + unfold pgt_s390x.
      destruct (read_pte64 readmem mask s) as [[st s1] pte] eqn:E. apply read_pte64_remain in E.
      destruct st; try discriminate.
      destruct (_ || _); [discriminate|]. destruct (_ && _); [discriminate|].
      destruct (_ && _); [|destruct (_ && _); [|destruct (_ && _); [discriminate|]]].
      * intro H. apply huge_page_remain in H; [exact H|]. cbn [set_addr set_base s_remain]. lia.
      * intro H. apply huge_page_remain in H; [exact H|]. cbn [set_addr set_base s_remain]. lia.
      * intro H. apply ok_inj in H. subst s'. rewrite elemsz_last_remain. cbn [set_addr set_base s_remain]. lia.
    + unfold pgt_ppc64_linux_rpn30, pgt_ppc64_linux, huge_page_linux, huge_pd_linux.
      destruct (read_pte64 readmem mask s) as [[st s1] pte] eqn:E. apply read_pte64_remain in E.
      destruct st; try discriminate.
      destruct (pte =? 0); [discriminate|]. destruct (1 <? s_remain s1)%nat.
      * destruct (negb _).
        -- destruct (64 <=? _); [discriminate|].
           intro H. apply huge_page_remain in H; [exact H|]. cbn [set_base s_remain]. lia.
        -- destruct (negb _).
           ++ destruct (_ =? 0); [discriminate|]. cbn [set_base s_remain].
              destruct (s_remain s1); [discriminate|]. destruct (negb _); [discriminate|].
              intro H. apply ok_inj in H. subst s'. cbn [set_remain s_remain]. lia.
           ++ destruct (64 <=? _); [discriminate|].
              intro H. apply ok_inj in H. subst s'. cbn [set_base s_remain]. lia.
      * destruct (64 <=? _); [discriminate|].
        intro H. apply ok_inj in H. subst s'. cbn [set_elemsz set_base s_remain]. lia.
    + unfold pgt_aarch64_lpa, pgt_aarch64_common.
      destruct (read_pte64 readmem mask s) as [[st s1] pte] eqn:E. apply read_pte64_remain in E.
      destruct st; try discriminate.
      destruct (_ =? 0); [discriminate|]. destruct (_ =? 1).
      * destruct (pf_table_mask _ _); [|discriminate]. destruct (_ || _); [discriminate|].
        intro H. apply huge_page_remain in H; [exact H|]. cbn [set_addr set_base s_remain]. lia.
      * destruct (pf_page_mask _); [|discriminate].
        intro H. apply ok_inj in H. subst s'. rewrite elemsz_last_remain. cbn [set_addr set_base s_remain]. lia.
    + unfold pgt_aarch64_lpa2, pgt_aarch64_common.
      destruct (read_pte64 readmem mask s) as [[st s1] pte] eqn:E. apply read_pte64_remain in E.
      destruct st; try discriminate.
      destruct (_ =? 0); [discriminate|]. destruct (_ =? 1).
      * destruct (pf_table_mask _ _); [|discriminate]. destruct (_ || _); [discriminate|].
        intro H. apply huge_page_remain in H; [exact H|]. cbn [set_addr set_base s_remain]. lia.
      * destruct (pf_page_mask _); [|discriminate].
        intro H. apply ok_inj in H. subst s'. rewrite elemsz_last_remain. cbn [set_addr set_base s_remain]. lia.
    + unfold pgt_arm, add_overlap.
      destruct (read_pte32 readmem mask s) as [[st s1] pte] eqn:E. apply read_pte32_remain in E.
      destruct st; try discriminate.
      destruct (_ =? 0); [discriminate|]. cbn [set_as s_remain].
      destruct (1 <? s_remain s1)%nat.
      * destruct (negb _).
        -- destruct (negb _).
           ++ destruct (64 <=? _); [discriminate|].
              intro H. apply huge_page_remain in H; [exact H|]. cbn [set_addr set_idx set_as s_remain]. lia.
           ++ intro H. apply huge_page_remain in H; [exact H|]. cbn [set_addr set_as s_remain]. lia.
        -- intro H. apply ok_inj in H. subst s'. cbn [set_addr set_as s_remain]. lia.
      * destruct (_ =? 1).
        -- destruct (64 <=? _); [discriminate|].
           intro H. apply ok_inj in H. subst s'. cbn [set_elemsz set_addr set_idx set_as s_remain]. lia.
        -- intro H. apply ok_inj in H. subst s'. cbn [set_elemsz set_addr set_as s_remain]. lia.
    + discriminate.
    + unfold pgt_riscv64.
      destruct (read_pte64 readmem mask s) as [[st s1] pte] eqn:E. apply read_pte64_remain in E.
      destruct st; try discriminate.
      destruct (_ =? 0); [discriminate|]. destruct (_ && _).
      * destruct (pf_table_mask _ _); [|discriminate].
        intro H. apply huge_page_remain in H; [exact H|]. cbn [set_addr set_base s_remain]. lia.
      * destruct (_ && _); [discriminate|].
        intro H. apply ok_inj in H. subst s'. rewrite elemsz_last_remain. cbn [set_addr set_base s_remain]. lia.
  - intro H. apply ok_inj in H. subst s'. exact Hr.
  - unfold next_step_memarr.
    destruct (if vsz =? 4 then _ else _) as [[v|e]|]; try discriminate.
    + destruct (64 <=? sh); [discriminate|]. intro H. apply ok_inj in H. subst s'.
      cbn [set_elemsz set_base set_raw s_remain]. exact Hr.
    + intro H. injection H as -> <-. exact Hr.
Qed.

Theorem walk_eq_launch_steps_all readmem m fuel s :
  custom_ok m ->
  addrxlat_walk readmem m fuel s = launch_steps readmem m fuel s (s_base s).
Proof.
  intro Hc. apply walk_eq_launch_steps.
  unfold custom_ok in Hc.
  destruct (m_kind m) eqn:Ek; try (apply builtin_keeps_remain; rewrite Ek; exact I).
  unfold next_step. rewrite Ek. exact Hc.
Qed.

(** * linear *)

Theorem linear_correct readmem tgt off addr fuel :
  addr < 2^64 -> (1 <= fuel)%nat ->
  observe (addrxlat_walk readmem {| m_kind := KLinear off; m_target := tgt |} fuel (init_step addr))
  = spec_linear tgt off addr.
Proof.
  intros Ha Hf. destruct fuel as [|fuel]; [lia|].
  unfold addrxlat_walk, init_step. cbn [first_step m_kind s_base first_step_linear m_target s_remain].
  cbn [walk_loop s_remain advance s_idx length Nat.leb s_as s_base s_elemsz s_raw nthN nth
       set_elemsz set_as observe m_target].
  unfold advance. cbn [s_idx length Nat.leb s_as s_base s_elemsz s_raw nthN nth
       set_elemsz set_as observe m_target].
  unfold spec_linear, wadd, wmul. rewrite N.mul_1_r, w_add_r.
  f_equal. f_equal. f_equal. rewrite w_mod.
  change (2^64)%Z with 18446744073709551616%Z. change (2^64) with 18446744073709551616 in *.
  pose proof (Z.mod_pos_bound off 18446744073709551616 ltac:(lia)) as Hb.
  apply N2Z.inj. rewrite N2Z.inj_mod, N2Z.inj_add, !Z2N.id by (try lia; apply Z.mod_pos_bound; lia).
  change (Z.of_N 18446744073709551616) with 18446744073709551616%Z.
  rewrite Zplus_mod_idemp_l. f_equal. lia.
Qed.

(** * lookup *)

Lemma lookup_aux readmem tgt endoff tbl0 addr fuel s0 :
  addr < 2^64 ->
  forall tbl, Forall (fun e => fst e + endoff < 2^64) tbl ->
  observe (match first_step_lookup tgt endoff tbl s0 addr with
           | (OK, s') =>
               match s_remain s' with
               | O => (OK, s')
               | S _ => walk_loop readmem {| m_kind := KLookup endoff tbl0; m_target := tgt |} (S fuel) s'
               end
           | r => r
           end)
  = spec_lookup tgt endoff tbl addr.
Proof.
  intros Ha tbl Htbl.
  induction tbl as [|[orig dest] tbl IH]; cbn [first_step_lookup spec_lookup].
  - reflexivity.
  - inversion Htbl as [|? ? Ho Ht]; subst. cbn [fst] in Ho.
    rewrite wadd_small by (now rewrite W_pow).
    destruct (N.leb_spec orig addr) as [Hle|Hgt]; cbn [andb].
    + destruct (N.leb_spec addr (orig + endoff)) as [H1|H1];
      destruct (N.leb_spec (addr - orig) endoff) as [H2|H2]; try lia.
      * cbn [s_remain walk_loop]. unfold advance.
        cbn [s_idx length Nat.leb s_as s_base s_elemsz s_raw nthN nth set_elemsz set_as observe m_target].
        unfold wadd, wmul. rewrite N.mul_1_r, w_add_r.
        rewrite wsub_le by (try lia; now rewrite W_pow). reflexivity.
      * apply IH. exact Ht.
    + apply IH. exact Ht.
Qed.

Theorem lookup_correct readmem tgt endoff tbl addr fuel :
  addr < 2^64 -> (1 <= fuel)%nat ->
  Forall (fun e => fst e + endoff < 2^64) tbl ->
  observe (addrxlat_walk readmem {| m_kind := KLookup endoff tbl; m_target := tgt |} fuel (init_step addr))
  = spec_lookup tgt endoff tbl addr.
Proof.
  intros Ha Hf Htbl. destruct fuel as [|fuel]; [lia|].
  unfold addrxlat_walk, init_step. cbn [first_step m_kind s_base m_target].
  now apply lookup_aux.
Qed.

(** * memory array *)

Theorem memarr_correct readmem tgt bas base shift elemsz valsz addr fuel :
  (forall a x, readmem a x <> RdErr OK) ->
  addr < 2^64 -> shift < 64 -> (2 <= fuel)%nat ->
  observe (addrxlat_walk readmem {| m_kind := KMemarr bas base shift elemsz valsz; m_target := tgt |}
                         fuel (init_step addr))
  = spec_memarr readmem tgt bas base shift elemsz valsz addr.
Proof.
  intros Herr Ha Hs Hf. destruct fuel as [|[|fuel]]; try lia.
  unfold addrxlat_walk, init_step. cbn [first_step m_kind s_base m_target].
  unfold first_step_memarr.
  destruct (N.leb_spec 64 shift); [lia|].
  cbn [s_remain walk_loop]. unfold advance.
  cbn [s_idx length Nat.leb s_as s_base s_elemsz s_raw nthN nth next_step m_kind m_target].
  unfold next_step_memarr, spec_memarr. cbn [s_as s_base].
  rewrite mask64 by exact Hs. rewrite N.land_ones, N.shiftr_div_pow2.
  assert (Hea : wadd base (wmul (addr / 2^shift) elemsz) = w (base + w (addr / 2^shift * elemsz)))
    by reflexivity.
  rewrite Hea.
  destruct (N.eqb_spec valsz 4) as [->|H4]; [|destruct (N.eqb_spec valsz 8) as [->|H8]]; cbn [orb negb].
  - unfold read32. destruct (readmem bas _) as [v|e] eqn:Er.
    + destruct (N.leb_spec 64 shift); [lia|].
      cbn [set_raw set_base set_elemsz s_remain walk_loop]. unfold advance.
      cbn [set_raw set_base set_elemsz set_as s_idx length Nat.leb s_as s_base s_elemsz s_raw
           s_remain nthN nth observe m_target].
      unfold wadd, wmul. rewrite N.mul_1_r, w_add_r, wshl_mul. reflexivity.
    + destruct e; try reflexivity. exfalso. exact (Herr _ _ Er).
  - unfold read64. destruct (readmem bas _) as [v|e] eqn:Er.
    + destruct (N.leb_spec 64 shift); [lia|].
      cbn [set_raw set_base set_elemsz s_remain walk_loop]. unfold advance.
      cbn [set_raw set_base set_elemsz set_as s_idx length Nat.leb s_as s_base s_elemsz s_raw
           s_remain nthN nth observe m_target].
      unfold wadd, wmul. rewrite N.mul_1_r, w_add_r, wshl_mul. reflexivity.
    + destruct e; try reflexivity. exfalso. exact (Herr _ _ Er).
  - reflexivity.
Qed.

(** * no undefined shift / index, no fuel exhaustion *)

Definition model_only (st : status) : bool :=
  match st with BADSHIFT | OOB | NOFUEL => true | _ => false end.

Lemma arch_levels_status readmem af tgt mask fs va :
  (forall a x e, readmem a x = RdErr e -> model_only e = false) ->
  forall l tas tbase, model_only (fst (arch_levels readmem af tgt mask fs va l tas tbase)) = false.
Proof.
  intro Hrd. induction l as [|l IH]; intros tas tbase; cbn [arch_levels]; [reflexivity|].
  unfold rd_entry. destruct (readmem tas _) as [v|e] eqn:Er.
  - destruct (af_decode af tgt fs (S l) _ va) as [a b|b sz|a b sh| |]; try reflexivity.
    + apply IH.
    + destruct (readmem a _) as [v2|e2] eqn:Er2.
      * destruct (af_decode af tgt fs 1 _ va); reflexivity.
      * cbn [fst]. eapply Hrd. exact Er2.
  - cbn [fst]. eapply Hrd. exact Er.
Qed.

Lemma arch_walk_status readmem af tgt mask fs va ras root :
  (forall a x e, readmem a x = RdErr e -> model_only e = false) ->
  model_only (fst (arch_walk readmem af tgt mask fs va ras root)) = false.
Proof.
  intro Hrd. unfold arch_walk. destruct ras; try reflexivity;
  (destruct (addr_ok _ _ _); [now apply arch_levels_status|reflexivity]).
Qed.

Lemma fst_observe r : fst (observe r) = fst r.
Proof. destruct r as [[] s]; reflexivity. Qed.

(** whenever the model walk equals an architectural walk, no model-only
    outcome (undefined shift, out-of-bounds index, fuel exhaustion) occurred *)
Theorem refines_no_ub readmem af tgt mask fs va ras root r :
  (forall a x e, readmem a x = RdErr e -> model_only e = false) ->
  observe r = arch_walk readmem af tgt mask fs va ras root ->
  model_only (fst r) = false.
Proof.
  intros Hrd H. rewrite <- fst_observe, H. now apply arch_walk_status.
Qed.

(** * Over-long paging forms are rejected by [first_step_pgt] *)
Lemma too_many_fields_rejected readmem ras root mask pf tgt fuel va :
  (pf_max_fields (pte_format pf) < length (fieldsz pf))%nat ->
  observe (addrxlat_walk readmem {| m_kind := KPgt ras root mask pf; m_target := tgt |} fuel (init_step va))
  = (NOTIMPL, None).
Proof.
  intro H.
  unfold addrxlat_walk, init_step. cbn [first_step m_kind s_base]. unfold first_step_pgt.
  destruct (Nat.ltb_spec (pf_max_fields (pte_format pf)) (length (fieldsz pf))) as [_|H']; [reflexivity|].
  exfalso. apply (Nat.lt_irrefl (length (fieldsz pf))). eapply Nat.le_lt_trans; eassumption.
Qed.
