(* engine "oom" (C18): one case per line
     <scenario> | <n>
   scenario:  new <nr> <opts>            opts: string of 0/1 (is the option a directory)
              clone <pinned> <slots> <dictclone> <xlatclone> <spec>;<spec>...   spec: <above>:<tree>
              xlat <clone> | dictnew <nr> | dictclone | createpath <missing>
              clonepath <above> <tree> | fcachenew | cachealloc <hasdata> | pfnregions <inc> <cnt>
   tree:      D<isset>(<kids>) | S<isset> | V<isset> | O<isset>
   output:    res=<1|0> fl=<1|0> clean=<1|0> ev=<events of the target call>
   events:    A:<site>  X:<site>  F:<site of the freed block>  r:/w:/L:<lock>  u:<lock>
   (reference counts - Pin/Unpin - are not observable on the C side and are left out;
    maximal runs of F events are sorted: the order inside one dealloc is not modelled)

   engine "oom-spec": judges an event trace observed on the C side with the extracted
   [Tokens.replay]:   <expect> | <events>     events: A:<id> F:<id> r:<l> w:<l> L:<l> u:<l> X
   expect: "clean" (nothing alive, no lock held), "nolock" (no lock held; blocks may be owned) *)
open Util
open Tokens
open OomModel

let site_name = function
  | S_alloc_ctx -> "context.c:alloc_ctx"
  | S_addrxlat_ctx_new -> "ctx.c:addrxlat_ctx_new"
  | S_addrxlat_ctx_add_cb -> "ctx.c:addrxlat_ctx_add_cb"
  | S_alloc_shared -> "context.c:alloc_shared"
  | S_attr_dict_new -> "attr.c:attr_dict_new"
  | S_attr_dict_clone -> "attr.c:attr_dict_clone"
  | S_alloc_attr -> "attr.c:alloc_attr"
  | S_alloc_attr_template -> "attr.c:alloc_attr_template"
  | S_copy_data -> "attr.c:copy_data"
  | S_xlat_new -> "vtop.c:xlat_new"
  | S_addrxlat_sys_new -> "sys.c:addrxlat_sys_new"
  | S_kdump_clone -> "context.c:kdump_clone"
  | S_fcache_new -> "fcache.c:fcache_new"
  | S_cache_alloc -> "cache.c:cache_alloc"
  | S_add_pfn_region -> "pfn.c:add_pfn_region"
  | S_fcache_get_chunk -> "fcache.c:fcache_get_chunk"
  | S_addrxlat_get_page -> "vtop.c:addrxlat_get_page"
  | S_format_private -> "format:private"
  | S_value -> "attr:value"

let lock_name l = match int_of_nat l with 0 -> "shared" | 1 -> "cache" | k -> "lock" ^ string_of_int k

(* parse a tree; returns (tree, rest) *)
let rec parse_tree (s : string) (i : int) : atree * int =
  let isset = s.[i + 1] = '1' in
  match s.[i] with
  | 'D' ->
      (* D<b>( kids ) *)
      let j = ref (i + 3) in
      let kids = ref [] in
      while s.[!j] <> ')' do
        let (t, k) = parse_tree s !j in kids := t :: !kids; j := k
      done;
      (ANode (KDir, isset, Stdlib.List.rev !kids), !j + 1)
  | 'S' -> (ANode (KStr, isset, []), i + 2)
  | 'V' -> (ANode (KVal, isset, []), i + 2)
  | 'O' -> (ANode (KOther, isset, []), i + 2)
  | c -> failwith ("bad tree char " ^ String.make 1 c)

let tree_of s = fst (parse_tree s 0)
let b s = s = "1"
let nat s = nat_of_int (int_of_string s)

let parse_scenario (ws : string list) : scenario =
  match ws with
  | ["new"; nr; opts] ->
      ScNew (nat nr, Stdlib.List.init (String.length opts) (fun i -> opts.[i] = '1'))
  | ["clone"; pinned; slots; dc; xc; specs] ->
      let sp = if specs = "-" then [] else
        Stdlib.List.map (fun x -> match split_on ':' x with
          | [a; t] -> (nat a, tree_of t) | _ -> failwith "bad spec")
          (Stdlib.List.filter (fun x -> x <> "") (split_on ';' specs)) in
      ScClone (b pinned, nat slots, b dc, b xc, sp)
  | ["xlat"; c] -> ScXlat (b c)
  | ["dictnew"; nr] -> ScDictNew (nat nr)
  | ["dictclone"] -> ScDictClone
  | ["createpath"; m] -> ScCreatePath (nat m)
  | ["clonepath"; a; t] -> ScClonePath (nat a, tree_of t)
  | ["fcachenew"] -> ScFcacheNew
  | ["cachealloc"; d] -> ScCacheAlloc (b d)
  | ["pfnregions"; inc; cnt] -> ScPfnRegions (nat inc, nat cnt)
  | _ -> failwith "bad scenario"

let canon_events (tr : event list) : string =
  let sites = Hashtbl.create 64 in
  let toks = Stdlib.List.filter_map (fun e -> match e with
    | Alloc (s, id) -> Hashtbl.replace sites (int_of_nat id) (site_name s); Some ("A:" ^ site_name s)
    | AllocFail s -> Some ("X:" ^ site_name s)
    | Free id -> Some ("F:" ^ (try Hashtbl.find sites (int_of_nat id) with Not_found -> "pre"))
    | Lock (Rd, l) -> Some ("r:" ^ lock_name l)
    | Lock (Wr, l) -> Some ("w:" ^ lock_name l)
    | Lock (Mtx, l) -> Some ("L:" ^ lock_name l)
    | Unlock l -> Some ("u:" ^ lock_name l)
    | Pin _ | Unpin _ -> None) tr in
  (* sort maximal runs of frees *)
  let rec go acc run = function
    | [] -> Stdlib.List.rev (Stdlib.List.rev_append (Stdlib.List.sort compare run) acc)
    | t :: rest when String.length t > 1 && t.[0] = 'F' -> go acc (t :: run) rest
    | t :: rest -> go (t :: Stdlib.List.rev_append (Stdlib.List.sort compare run) acc) [] rest in
  let toks = go [] [] toks in
  if toks = [] then "none" else String.concat "," toks

let run_case (line : string) : string =
  match split_on '|' line with
  | [sc; n] ->
      let sc = parse_scenario (words sc) in
      let sch = fail_nth (nat (String.trim n)) in
      let ((res, tr), fl) = run_target sc sch in
      let ((_, tr_full), _) = run_scenario sc sch in
      Printf.sprintf "res=%d fl=%d clean=%d ev=%s" (if res then 1 else 0) (if fl then 1 else 0)
        (if cleanb tr_full then 1 else 0) (canon_events tr)
  | _ -> failwith "bad case line"

(* spec mode *)
let spec_case (line : string) : string =
  match split_on '|' line with
  | [expect; evs] ->
      let parse t = match split_on ':' t with
        | ["A"; id] -> Some (Alloc (S_value, nat id))
        | ["F"; id] -> Some (Free (nat id))
        | ["r"; l] -> Some (Lock (Rd, nat l))
        | ["w"; l] -> Some (Lock (Wr, nat l))
        | ["L"; l] -> Some (Lock (Mtx, nat l))
        | ["u"; l] -> Some (Unlock (nat l))
        | ["X"] -> None
        | _ -> failwith ("bad event " ^ t) in
      let tr = Stdlib.List.filter_map parse (words evs) in
      (match replay tr with
       | None -> "invalid: a block is freed that is not alive, or a lock released that is not held"
       | Some s ->
           let nl = Stdlib.List.length s.live and nk = Stdlib.List.length s.locks in
           (match String.trim expect with
            | "clean" ->
                if nk > 0 then Printf.sprintf "%d lock(s) still held" nk
                else if nl > 0 then Printf.sprintf "%d block(s) not freed" nl else "ok"
            | "nolock" -> if nk > 0 then Printf.sprintf "%d lock(s) still held" nk else "ok"
            | e -> failwith ("bad expectation " ^ e)))
  | _ -> failwith "bad spec line"

let engines = [ "oom", run_case; "oom-spec", spec_case ]
