(* engine "pmap" (C07, end to end): see harness/pmap_drv.c and lib/kdv/pmap_e2e.py.
     E <fmt> <model fields> T <stored runs>;<ram runs> @ <paths> | <ops>
   "pmap-spec": the line followed by " # <implementation's output>"; every answer is judged
   against the ground truth runs with PfnSpec (least index / exact raw bits / bit <=> readable). *)
open Util
open PfnSpec

let split_at (s : string) (sep : string) : string * string =
  let n = String.length sep in
  let rec find i = if i + n > String.length s then -1
    else if String.sub s i n = sep then i else find (i + 1) in
  match find 0 with
  | -1 -> (s, "")
  | i -> (String.sub s 0 i, String.sub s (i + n) (String.length s - i - n))

let parse_runs (s : string) : (BinNums.coq_N * BinNums.coq_N) list =
  if s = "-" || s = "" then [] else
  Stdlib.List.map (fun r -> match split_on '-' r with
    | [a; b] -> (n_of_hex a, n_of_hex b) | _ -> failwith ("bad run " ^ r)) (split_on ',' s)

let bytes_of_hex (s : string) : BinNums.coq_N list =
  Stdlib.List.init (String.length s / 2) (fun i -> n_of_hex (String.sub s (2 * i) 2))

let nmax a b = if BinNat.N.leb a b then b else a

(* ---- model side ------------------------------------------------------------ *)
open BitmapModel
open RegionModel

let hex2 (b : BinNums.coq_N) : string = Printf.sprintf "%02x" (int_of_n b)
let hex_of_bytes (l : BinNums.coq_N list) : string = String.concat "" (Stdlib.List.map hex2 l)
let maxa = n_of_hex "ffffffffffffffff"

(* "xx*n,xx*n" -> bytes *)
let parse_rle (s : string) : BinNums.coq_N list =
  if s = "-" then [] else
  Stdlib.List.concat_map (fun t -> match split_on '*' t with
    | [b; n] -> let v = n_of_hex b in Stdlib.List.init (int_of_string ("0x" ^ n)) (fun _ -> v)
    | _ -> failwith ("bad rle " ^ t)) (split_on ',' s)

let show_res f = function Val a -> f a | Oob -> "OOB" | Fuel -> "FUEL"

let buf_for f l fill =
  let n = (int_of_n (BinNat.N.shiftr (Wrap64.wsub l f) (n_of_int 3))) + 1 in
  Stdlib.List.init n (fun _ -> n_of_hex fill)

(* the three page-map queries on an array of file maps *)
let maps_op (ms : fmap list) (o : string) : string =
  match split_on ':' o with
  | ["s"; i] -> show_res (function Some p -> "1:" ^ hex_of_n p | None -> "0") (find_mapped_pfn true ms (n_of_hex i))
  | ["c"; i] -> show_res hex_of_n (find_unmapped_pfn true ms (n_of_hex i))
  | ["g"; f; l; fill] ->
      let f = n_of_hex f and l = n_of_hex l in
      show_res hex_of_bytes (get_pfn_map_bits ms f l (buf_for f l fill))
  | _ -> "?"

let diskdump_model (fields : string list) (ops : string list) : string list =
  match fields with
  | [g; a] ->
      let (bs, bb, maxm, wins) = match split_on ':' g with
        | [bs; bb; mm; w] -> (n_of_hex bs, n_of_hex bb, n_of_hex mm,
                              Stdlib.List.map (fun x -> match split_on '-' x with
                                | [a; b] -> (n_of_hex a, n_of_hex b) | _ -> failwith "bad window") (split_on ',' w))
        | _ -> failwith "bad diskdump geometry" in
      let area = parse_rle (String.sub a 2 (String.length a - 2)) in
      if Stdlib.List.length area > 20000 then ["-"] else
      let file_maps = Stdlib.List.map (fun (st, en) ->
        match DdGeomModel.dd_file_regions false BinNums.N0 area bs bb maxm st en BinNums.N0 [] with
        | (ROk rs, _) -> { regions = rs; start_pfn = st; end_pfn = en }
        | _ -> failwith "model: file regions") wins in
      let file_maps = sort_maps file_maps in
      let mem_map = match DdGeomModel.dd_mem_regions false BinNums.N0 area bs bb maxm [] with
        | (ROk rs, _) -> [ { regions = rs; start_pfn = BinNums.N0; end_pfn = maxa } ]
        | _ -> failwith "model: memory regions" in
      let g = DdGeomModel.read_bitmap_geom false bs bb maxm maxa in
      Stdlib.List.map (fun o ->
        if o.[0] = 'R' then
          show_res (fun b -> if b then "ok" else "nodata")
            (DdGeomModel.dd_page_stored file_maps g.DdGeomModel.max_pfn' (n_of_hex (String.sub o 2 (String.length o - 2))))
        else maps_op (if o.[0] = 'F' then file_maps else mem_map) (String.sub o 1 (String.length o - 1))) ops
  | _ -> failwith "bad diskdump fields"

let elf_model (fields : string list) (ops : string list) : string list =
  match fields with
  | [f] ->
      let segs = match split_at f ":" with
        | (_, "") -> []
        | (_, l) -> Stdlib.List.map (fun x -> match split_on ':' x with
            | [p; fs; ms] -> { ElfBitsModel.phys = n_of_hex p; filesz = n_of_hex fs; memsz = n_of_hex ms }
            | _ -> failwith "bad segment") (split_on ',' l) in
      let sh = n_of_int 12 in
      Stdlib.List.map (fun o ->
        if o.[0] = 'R' then "?" else
        let ismem = (o.[0] = 'M') in
        match split_on ':' (String.sub o 1 (String.length o - 1)) with
        | ["s"; i] -> (match ElfBitsModel.elf_find_set ismem sh segs None (n_of_hex i) with
                       | Some p -> "1:" ^ hex_of_n p | None -> "0")
        | ["c"; i] -> hex_of_n (ElfBitsModel.elf_find_clear ismem sh segs None (n_of_hex i))
        | ["g"; f; l; fill] ->
            let f = n_of_hex f and l = n_of_hex l in
            show_res hex_of_bytes (ElfBitsModel.elf_get_bits ismem sh segs None f l (buf_for f l fill))
        | _ -> "?") ops
  | _ -> failwith "bad elf fields"

(* SADUMP: "bs:sub:bb:db:maxm:hdr_pos", "N=<disk numbers of the files in the order given>",
   "A=<rle of file 1 up to the end of the bitmaps>;<file 2>;..." *)
let sadump_model (fields : string list) (ops : string list) : string list =
  match fields with
  | [g; nn; a] ->
      let nums = Stdlib.List.map n_of_hex (split_on ':' g) in
      let disknums = Stdlib.List.map n_of_hex (split_on '.' (String.sub nn 2 (String.length nn - 2))) in
      (match nums with
       | [bs; sub; bb; db; maxm; hdr] ->
           let files = Stdlib.List.map parse_rle (split_on ';' (String.sub a 2 (String.length a - 2))) in
           if Stdlib.List.exists (fun f -> Stdlib.List.length f > 40000) files then ["-"] else
           let geo = SadGeomModel.sadump_geom hdr bs sub bb db in
           (match SadGeomModel.disk1_index disknums BinNums.N0 with
            | None -> failwith "model: no disk #1"
            | Some k ->
           let (max1, fr) = SadGeomModel.sd_set_file_regions BinNums.N0 files geo k maxm [] in
           let file_map = match fr with
             | (ROk rs, _) -> { regions = rs; start_pfn = BinNums.N0;
                                end_pfn = BinNat.N.mul geo.SadGeomModel.sg_bmp_len (n_of_int 8) }
             | _ -> failwith "model: sadump file regions" in
           let (max2, mr) = SadGeomModel.sd_set_mem_regions false BinNums.N0 files geo k max1 [] in
           let mem_map = match mr with
             | (ROk rs, _) -> { regions = rs; start_pfn = BinNums.N0;
                                end_pfn = BinNat.N.mul geo.SadGeomModel.sg_mem_size (n_of_int 8) }
             | _ -> failwith "model: sadump memory regions" in
           Stdlib.List.map (fun o ->
             if o.[0] = 'R' then
               show_res (fun b -> if b then "ok" else "nodata")
                 (SadGeomModel.sd_page_stored file_map max2 (n_of_hex (String.sub o 2 (String.length o - 2))))
             else maps_op [if o.[0] = 'F' then file_map else mem_map] (String.sub o 1 (String.length o - 1))) ops)
       | _ -> failwith "bad sadump geometry")
  | _ -> ["-"]

let model_hooks : (string * (string list -> string list -> string list)) list ref =
  ref [ "d", diskdump_model; "e", elf_model; "s", sadump_model ]

(* an op run on a clone ("C" prefix) must give the same answer *)
let norm_op (o : string) : string =
  if String.length o > 0 && o.[0] = 'C' then String.sub o 1 (String.length o - 1) else o

let run_case (line : string) : string =
  let (hd, rest) = split_at line " T " in
  let (_, rest2) = split_at rest " @ " in
  let (_, ops) = split_at rest2 " | " in
  match Util.words hd with
  | "E" :: fmt :: fields ->
      (match Stdlib.List.assoc_opt fmt !model_hooks with
       | None -> "-"
       | Some f -> (match f fields (Stdlib.List.map norm_op (Util.words ops)) with
                    | ["-"] -> "-" | l -> "E " ^ String.concat " " l))
  | _ -> failwith "bad case"

let spec_case (line : string) : string =
  let (case, impl) = split_at line " # " in
  let (_, rest) = split_at case " T " in
  let (truth, rest2) = split_at rest " @ " in
  let (_, ops) = split_at rest2 " | " in
  let (st, rm) = split_at truth ";" in
  let stored = parse_runs (String.trim st) and ram = parse_runs (String.trim rm) in
  if String.length impl > 0 && impl.[0] = 'X' then "a well-formed dump failed to open: " ^ impl else
  let answers = match Util.words impl with "E" :: t -> t | _ -> failwith "bad impl line" in
  let ops = Stdlib.List.map norm_op (Util.words ops) in
  let (answers, hist) = match Stdlib.List.rev answers with
    | h :: t -> (Stdlib.List.rev t, h) | [] -> ([], "") in
  if Stdlib.List.length ops <> Stdlib.List.length answers then "wrong number of answers" else
  let limit_of runs = Stdlib.List.fold_left (fun a (_, b) -> nmax a b) BinNums.N0 runs in
  let judge (o, a) =
    if o.[0] = 'R' then begin
      let p = n_of_hex (String.sub o 2 (String.length o - 2)) in
      let want = if truth_present stored p then "ok" else "nodata" in
      if a = want then None
      else Some (Printf.sprintf "read of frame %s: %s, but the dump %s it" (hex_of_n p) a
                   (if want = "ok" then "stores" else "does not store"))
    end else begin
      let runs = if o.[0] = 'F' then stored else ram in
      let name = if o.[0] = 'F' then "file.pagemap" else "memory.pagemap" in
      let bit = truth_present runs and limit = limit_of runs in
      match split_on ':' (String.sub o 1 (String.length o - 1)) with
      | ["s"; i] ->
          let i = n_of_hex i in
          let lim = nmax limit i in
          (match split_on ':' a with
           | ["0"] -> if least_ok bit true i lim lim && not (bit lim) then None
                      else Some (Printf.sprintf "%s find_set(%s) says none but a later frame is present" name (hex_of_n i))
           | ["1"; q] -> let q = n_of_hex q in
               if bit q && least_ok bit true i (nmax lim q) q then None
               else Some (Printf.sprintf "%s find_set(%s) = %s is not the least present frame" name (hex_of_n i) (hex_of_n q))
           | _ -> Some (name ^ " find_set: unexpected answer " ^ a))
      | ["c"; i] ->
          let i = n_of_hex i in
          let lim = nmax limit i in
          if String.length a > 0 && a.[0] = '!' then Some (name ^ " find_clear failed: " ^ a) else
          let q = n_of_hex a in
          if least_ok bit false i (nmax lim q) q && not (bit q) then None
          else Some (Printf.sprintf "%s find_clear(%s) = %s is not the least absent frame" name (hex_of_n i) a)
      | ["g"; f; l; _] ->
          if String.length a > 0 && a.[0] = '!' then Some (name ^ " get_bits failed: " ^ a) else
          if raw_ok bit (n_of_hex f) (n_of_hex l) (bytes_of_hex a) then None
          else Some (Printf.sprintf "%s get_bits(%s..%s) = %s differs from the frames the dump holds" name f l a)
      | _ -> Some "bad op"
    end in
  match Stdlib.List.filter_map judge (Stdlib.List.combine ops answers) with
  | m :: _ -> m
  | [] -> if hist = "H=same" then "ok" else "page-map answers changed after the reads: " ^ hist

let engines = [ "pmap", run_case; "pmap-spec", spec_case ]
