(* engine "map": one case per line, ops separated by spaces
     S:<addr>:<endoff>:<meth>:<ok>   Q:<addr>   C:<a1>:<a2>      (hex, meth may be -1)
   output: per op "<out>=<endoff>:<meth>,...;" joined by spaces *)
open Util
open MapModel

let parse_op (s : string) : op =
  match split_on ':' s with
  | ["S"; a; e; m; ok] -> OpSet (n_of_hex a, n_of_hex e, z_of_hex m, ok = "1")
  | ["Q"; a] -> OpSearch (n_of_hex a)
  | ["C"; a1; a2] -> OpCopy (a1 = "1", a2 = "1")
  | _ -> failwith ("bad op " ^ s)

let show_map (m : map) : string =
  String.concat "," (Stdlib.List.map (fun r -> hex_of_n r.endoff ^ ":" ^ hex_of_z r.meth) m)

let show_out = function
  | OutSet st -> "S" ^ string_of_int (int_of_n st)
  | OutSearch m -> "Q" ^ hex_of_z m
  | OutCopy b -> if b then "C1" else "C0"

let run_case (line : string) : string =
  let ops = Stdlib.List.map parse_op (words line) in
  let tr = run [] ops in
  (* the original of the last successful copy is an immutable value in the model;
     it is printed so that the implementation's original can be compared with it *)
  let frozen = ref None and prev = ref [] in
  String.concat " " (Stdlib.List.map (fun (o, m) ->
    (match o with OutCopy true -> frozen := Some !prev | _ -> ());
    prev := m;
    show_out o ^ "=" ^ show_map m ^ ";" ^
    (match !frozen with Some f -> "~" ^ show_map f ^ ";" | None -> "")) tr)

(* spec mode: "<before-map> | <op> | <after-map>|<out>" -> check the spec on the
   implementation's own answers (impl-vs-spec search).  Prints "ok" or the reason. *)
let parse_map (s : string) : map =
  if s = "" then [] else
  Stdlib.List.map (fun p -> match split_on ':' p with
    | [e; m] -> { endoff = n_of_hex e; meth = z_of_hex m }
    | _ -> failwith "bad range") (split_on ',' s)

let spec_case (line : string) : string =
  match Stdlib.List.map String.trim (split_on '|' line) with
  | [before; ops; after; out; probes] ->
      let mb = parse_map before and ma = parse_map after in
      let o = parse_op ops in
      let pr = Stdlib.List.map n_of_hex (words probes) in
      if not (MapSpec.tilesb ma) then "after-map does not tile the address space" else
      (match o with
       | OpSet (a, e, mm, ok) ->
           if out = "S0" then begin
             let bad = Stdlib.List.filter (fun x ->
               MapSpec.denote ma x <> MapSpec.set_spec (MapSpec.denote mb) a e mm x) pr in
             match bad with [] -> "ok"
             | x :: _ -> "set changed/kept the wrong value at address " ^ hex_of_n x
           end else if out = "S4" then
             (if ok then "NOMEM although the allocation succeeded"
              else if ma <> mb then "map changed by a failed set" else "ok")
           else "unexpected status " ^ out
       | OpSearch a ->
           if out = "Q" ^ hex_of_z (MapSpec.denote mb a) then
             (if ma <> mb then "map changed by a search" else "ok")
           else "search returned " ^ out ^ " expected Q" ^ hex_of_z (MapSpec.denote mb a)
       | OpCopy (a1, a2) ->
           if (out = "C1") <> (a1 && a2) then "copy outcome does not match allocation outcome"
           else if ma <> mb then "copy differs from original" else "ok")
  | _ -> failwith "bad spec line"

let engines = [ "map", run_case; "map-spec", spec_case ]
