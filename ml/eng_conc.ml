(* engine "conc" (C05): one line = the output of harness/conc_drv.c for one run,
     N=<n> cap=<c> | <events of thread 0> | ... | <summary>
   Every thread's event list is run through the extracted per-thread automaton
   Protocol.thread_trace_ok (cache_lock has lock id 1 in the driver's numbering);
   the lock acquisition edges of all threads are checked with LockOrder.acyclicb.
   Output: "ok" or the first violation.
   engine "conc-model": replays the model's own refutation schedules (sanity of the
   extraction): prints the final reference counts of the lost-update run. *)
open Util
open BinNums
open Protocol

let parse_event (tok : string) : event option =
  let tok = if String.length tok > 0 && tok.[String.length tok - 1] = '!'
            then String.sub tok 0 (String.length tok - 1) else tok in
  let n = String.length tok in
  if n < 2 then None else
  let num s = n_of_hex (Printf.sprintf "%x" (int_of_string s)) in
  match tok.[0] with
  | 'L' -> Some (EvLock (num (String.sub tok 1 (n - 1))))
  | 'U' -> Some (EvUnlock (num (String.sub tok 1 (n - 1))))
  | 'r' -> Some (EvRdLock (num (String.sub tok 1 (n - 1))))
  | 'w' -> Some (EvWrLock (num (String.sub tok 1 (n - 1))))
  | 'u' -> Some (EvRwUnlock (num (String.sub tok 1 (n - 1))))
  | 'G' | 'I' | 'D' | 'P' ->
      (match split_on ':' (String.sub tok 1 (n - 1)) with
       | c :: e :: _ ->
           let c = num c in
           (match tok.[0] with
            | 'G' -> Some (EvGet (c, if e = "-" then None else Some (n_of_hex e)))
            | 'I' -> Some (EvInsert (c, n_of_hex e))
            | 'D' -> Some (EvDiscard (c, n_of_hex e))
            | _ -> Some (EvPut (c, n_of_hex e)))
       | _ -> None)
  | _ -> None

let show_violation = function
  | CacheOpWithoutLock (k, c) ->
      Printf.sprintf "CacheOpWithoutLock kind=%d cache=%d" (int_of_n k) (int_of_n c)
  | InsertUnheld (c, e) -> Printf.sprintf "InsertUnheld cache=%d entry=%s" (int_of_n c) (hex_of_n e)
  | PutUnheld (c, e) -> Printf.sprintf "PutUnheld cache=%d entry=%s" (int_of_n c) (hex_of_n e)
  | UnlockUnheld l -> Printf.sprintf "UnlockUnheld lock=%d" (int_of_n l)
  | LeftHeld -> "LeftHeld"

(* held -> acquired edges of one thread *)
let edges_of (evs : event list) : (coq_N * coq_N) list =
  let rec go held acc = function
    | [] -> acc
    | (EvLock l | EvRdLock l | EvWrLock l) :: t ->
        go (l :: held) (Stdlib.List.map (fun h -> (h, l)) held @ acc) t
    | (EvUnlock l | EvRwUnlock l) :: t ->
        let rec rm = function [] -> [] | x :: r -> if x = l then r else x :: rm r in
        go (rm held) acc t
    | _ :: t -> go held acc t in
  go [] [] evs

(* API brackets: "A<id>" ... "Z<id>" around a public API call.  Returns the event list without
   the brackets and the list of (id, events inside the call). *)
let split_calls (toks : string list) : string list * (int * string list) list =
  let plain = ref [] and calls = ref [] and cur = ref None in
  Stdlib.List.iter (fun t ->
    let n = String.length t in
    if n >= 2 && t.[0] = 'A' && (match t.[1] with '0'..'9' -> true | _ -> false) then
      cur := Some (int_of_string (String.sub t 1 (n - 1)), [])
    else if n >= 2 && t.[0] = 'Z' && (match t.[1] with '0'..'9' -> true | _ -> false) then
      (match !cur with
       | Some (id, evs) -> calls := (id, Stdlib.List.rev evs) :: !calls; cur := None
       | None -> ())
    else if n >= 1 && t.[0] = 'X' then ()      (* xlat refcount callouts: judged by the driver's counter *)
    else begin
      plain := t :: !plain;
      match !cur with Some (id, evs) -> cur := Some (id, t :: evs) | None -> ()
    end) toks;
  (Stdlib.List.rev !plain, Stdlib.List.rev !calls)

let show_req = function
  | ApiLock.ReqRead -> "read" | ApiLock.ReqWrite -> "write" | ApiLock.ReqWriteAfterRead -> "write-after-read"

let run_case (line : string) : string =
  let parts = Stdlib.List.map String.trim (split_on '|' line) in
  match parts with
  | _ :: rest when Stdlib.List.length rest >= 2 ->
      let threads = Stdlib.List.filteri (fun i _ -> i < Stdlib.List.length rest - 1) rest in
      let cl = n_of_int 1 in
      let bad = ref None and edges = ref [] in
      Stdlib.List.iteri (fun i t ->
        let toks, calls = split_calls (words t) in
        (* lock class per API entry point (Conc/ApiLock.v): shared->lock has id 2 in the driver *)
        Stdlib.List.iter (fun (id, ctoks) ->
          if !bad = None then
            match ApiLock.api_req (n_of_int id) with
            | None -> ()
            | Some r ->
                let cevs = Stdlib.List.filter_map (fun x -> if x = "-" then None else parse_event x) ctoks in
                if not (ApiLock.api_call_ok (n_of_int 2) r cevs) then
                  bad := Some (Printf.sprintf "ApiLockClass api=%d needs=%s sees=%s (thread %d)" id (show_req r)
                                 (String.concat "," (Stdlib.List.filter (fun x ->
                                    String.length x >= 2 && (x.[0] = 'r' || x.[0] = 'w' || x.[0] = 'u')
                                    && x.[1] = '2') ctoks)) i)) calls;
        let evs = Stdlib.List.filter_map (fun x -> if x = "-" then None else
          match parse_event x with Some e -> Some e
          | None -> (if !bad = None then bad := Some (Printf.sprintf "thread %d: bad token %s" i x)); None) toks in
        edges := edges_of evs @ !edges;
        if !bad = None then
          match thread_trace_ok cl evs with
          | None -> ()
          | Some v -> bad := Some (Printf.sprintf "%s (thread %d)" (show_violation v) i)) threads;
      (match !bad with
       | Some b -> b
       | None ->
           let es = Stdlib.List.sort_uniq compare !edges in
           let nes = Stdlib.List.map (fun (a, b) -> (nat_of_int (int_of_n a), nat_of_int (int_of_n b))) es in
           if LockOrder.acyclicb nes then "ok"
           else "LockOrderCycle " ^ String.concat "," (Stdlib.List.map (fun (a, b) ->
                  Printf.sprintf "%d>%d" (int_of_n a) (int_of_n b)) es))
  | _ -> "bad line"

let engines = [ "conc", run_case ]
