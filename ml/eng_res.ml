(* engine "res" (C15): white-box fcache_get_chunk / fcache_put_chunk rounds
     chunk <fix41> <fix47> <policy 0 never|1 always|2 try> <big> <pages> | <n>
   pages: comma separated <m><r><contig>  with m, r in {o ok, f fails, b busy}: what the
   mmap path resp. the read path does for that page, contig 0/1; <n>: the allocation to fail
   output: cls=<0 failed|1 embed|2 array|3 copy|4 empty|9 oob> pins= blocks= pins2= blocks2=
   engine "res-spec": "<cls> <pins> <blocks> <pins2> <blocks2>" judged by ResSpec.chunk_obs_ok *)
open Util
open Tokens
open ResModel

let nat i = nat_of_int i

let parse_pages (s : string) : (getenv * bool) list =
  if s = "-" then [] else
  Stdlib.List.mapi (fun i p ->
    if String.length p <> 3 then failwith ("bad page " ^ p);
    let look c e = match c with 'b' -> Busy | _ -> Entry (nat e, false) in
    ({ g_eof = false; g_mlook = look p.[0] (100 + i); g_mmap_ok = (p.[0] = 'o');
       g_rlook = look p.[1] (200 + i); g_pread_ok = (p.[1] = 'o') }, p.[2] = '1'))
    (split_on ',' s)

let run_case (line : string) : string =
  match split_on '|' line with
  | [sc; n] ->
      (match words sc with
       | ["chunk"; f41; f47; pol; big; pages] ->
           let pol = match pol with "0" -> PNever | "1" -> PAlways | _ -> PTry in
           let (((cls, (p1, b1)), (p2, b2))) =
             run_chunk (f41 = "1") (f47 = "1") pol (big = "1") (parse_pages pages)
               (fail_nth (nat (int_of_string (String.trim n)))) in
           Printf.sprintf "cls=%d pins=%d blocks=%d pins2=%d blocks2=%d"
             (int_of_nat cls) (int_of_nat p1) (int_of_nat b1) (int_of_nat p2) (int_of_nat b2)
       | _ -> failwith "bad scenario")
  | _ -> failwith "bad case line"

let spec_case (line : string) : string =
  match Stdlib.List.map int_of_string (words line) with
  | [cls; p; b; p2; b2] ->
      if ResSpec.chunk_obs_ok (nat cls) (nat p) (nat b) (nat p2) (nat b2) then "ok"
      else if p2 <> 0 then "cache entries still referenced after put_chunk"
      else if b2 <> 0 then "blocks still allocated after put_chunk"
      else if cls = 0 && p <> 0 then "cache entries referenced after a failed get_chunk"
      else if cls = 0 && b <> 0 then "blocks allocated after a failed get_chunk"
      else "geometry does not hold what it should"
  | _ -> failwith "bad spec line"

let engines = [ "res", run_case; "res-spec", spec_case ]
