(* engine "sysos" (C08): same case syntax as harness/sysos_drv.c *)
open Util
open BinNums
open LayoutModel

let string_of_as = function Step.KPHYSADDR -> "0" | Step.MACHPHYSADDR -> "1" | Step.KVADDR -> "2" | Step.NOADDR -> "-1"
let as_of_string = function
  | "0" -> Step.KPHYSADDR | "1" -> Step.MACHPHYSADDR | "2" -> Step.KVADDR | "-1" -> Step.NOADDR
  | s -> failwith ("bad address space " ^ s)

let fmt_name = function
  | Step.PTE_NONE -> "none" | Step.PTE_PFN32 -> "pfn32" | Step.PTE_PFN64 -> "pfn64"
  | Step.PTE_AARCH64 -> "aarch64" | Step.PTE_AARCH64_LPA -> "aarch64_lpa" | Step.PTE_AARCH64_LPA2 -> "aarch64_lpa2"
  | Step.PTE_ARM -> "arm" | Step.PTE_IA32 -> "ia32" | Step.PTE_IA32_PAE -> "ia32_pae"
  | Step.PTE_PPC64_LINUX_RPN30 -> "ppc64_linux_rpn30" | Step.PTE_RISCV32 -> "riscv32"
  | Step.PTE_RISCV64 -> "riscv64" | Step.PTE_S390X -> "s390x" | Step.PTE_X86_64 -> "x86_64"

let string_of_lstatus = function
  | L_OK -> "0"
  | L_ERR st -> Eng_walk.string_of_status st
  | L_BADIDX -> "UB-index" | L_OVERFLOW -> "UB-overflow" | L_MAPOOB -> "UB-map"

let all_maps = [MAP_HW; MAP_KV_PHYS; MAP_KPHYS_DIRECT; MAP_MACHPHYS_KPHYS; MAP_KPHYS_MACHPHYS]

let dump_sys (s : sys) : string =
  let b = Buffer.create 256 in
  Stdlib.List.iteri (fun i mi ->
    Buffer.add_string b (Printf.sprintf " M%d=" i);
    (match get_map s mi with
     | None -> Buffer.add_char b '-'
     | Some m -> Buffer.add_string b (String.concat "," (Stdlib.List.map (fun r ->
         hex_of_n r.MapModel.endoff ^ ":" ^ hex_of_z r.MapModel.meth) m)));
    Buffer.add_char b ';') all_maps;
  for i = 0 to 15 do
    let m = get_meth s (nat_of_int i) in
    let tgt = string_of_as m.sm.Step.m_target in
    match m.sm.Step.m_kind with
    | Step.KNone -> ()
    | Step.KLinear off -> Buffer.add_string b (Printf.sprintf " m%d=L:%s:%s" i tgt (hex_of_z off))
    | Step.KPgt (ras, root, mask, pf) ->
        Buffer.add_string b (Printf.sprintf " m%d=P:%s:%s:%s:%s:%s:%s" i (string_of_as ras) (hex_of_n root)
          (hex_of_n mask) (fmt_name pf.Step.pte_format)
          (String.concat "," (Stdlib.List.map hex_of_n pf.Step.fieldsz)) tgt)
    | Step.KMemarr (bas, base, shift, esz, vsz) ->
        Buffer.add_string b (Printf.sprintf " m%d=A:%s:%s:%s:%s:%s:%s" i (string_of_as bas) (hex_of_n base)
          (hex_of_n shift) (hex_of_n esz) (hex_of_n vsz) tgt)
    | _ -> Buffer.add_string b (Printf.sprintf " m%d=?" i)
  done;
  Buffer.contents b

let map_of_int = function
  | 0 -> MAP_HW | 1 -> MAP_KV_PHYS | 2 -> MAP_KPHYS_DIRECT | 3 -> MAP_MACHPHYS_KPHYS | 4 -> MAP_KPHYS_MACHPHYS
  | _ -> failwith "bad map index"
let act_of_int = function
  | 0 -> ACT_NONE | 1 -> ACT_DIRECT | 2 -> ACT_RDIRECT | 3 -> ACT_IDENT_KPHYS | 4 -> ACT_IDENT_MACHPHYS
  | _ -> failwith "bad action"

let parse_region (s : string) : region =
  match split_on '-' s with
  | [f; l; m; a] -> { r_first = n_of_hex f; r_last = n_of_hex l;
                      r_meth = nat_of_int (int_of_string ("0x" ^ m)); r_act = act_of_int (int_of_string ("0x" ^ a)) }
  | _ -> failwith ("bad region " ^ s)

let run_lay (calls : string list) : string =
  let sts = ref [] in
  let s = ref sys_new in
  Stdlib.List.iter (fun c ->
    let (st, s') =
      if c.[0] = 'P' then sys_set_physmaps !s (n_of_hex (String.sub c 1 (String.length c - 1)))
      else match split_on ':' c with
        | [h; rs] ->
            let idx = map_of_int (int_of_string ("0x" ^ String.sub h 1 (String.length h - 1))) in
            sys_set_layout !s idx (Stdlib.List.map parse_region (split_on ',' rs))
        | _ -> failwith ("bad call " ^ c) in
    s := s'; sts := string_of_lstatus st :: !sts) calls;
  String.concat "," (Stdlib.List.rev !sts) ^ dump_sys !s

(* ---- sparse memory: exact cells, failing cells, zero-filled regions ---- *)
type cell = { c_as : Step.aspace; c_addr : coq_N; c_kind : int; c_res : Step.rdres; c_len : coq_N }

let parse_cell (s : string) : cell =
  match split_on ':' s with
  | [a; rest] ->
      let cut c = match String.index_opt rest c with
        | Some i -> Some (String.sub rest 0 i, String.sub rest (i + 1) (String.length rest - i - 1))
        | None -> None in
      (match cut '=', cut '!', cut '~' with
       | Some (ad, v), _, _ ->
           { c_as = as_of_string a; c_addr = n_of_hex ad; c_kind = 0; c_res = Step.RdOk (n_of_hex v); c_len = N0 }
       | _, Some (ad, st), _ ->
           { c_as = as_of_string a; c_addr = n_of_hex ad; c_kind = 1;
             c_res = Step.RdErr (Eng_walk.status_of_int (int_of_z (z_of_hex st))); c_len = N0 }
       | _, _, Some (ad, l) ->
           { c_as = as_of_string a; c_addr = n_of_hex ad; c_kind = 2; c_res = Step.RdOk N0; c_len = n_of_hex l }
       | _ -> failwith ("bad cell " ^ s))
  | _ -> failwith ("bad cell " ^ s)

let mem_of_cells (cells : cell list) : Step.aspace -> coq_N -> Step.rdres =
  let exact = Hashtbl.create 64 in
  Stdlib.List.iter (fun c -> if c.c_kind <> 2 && not (Hashtbl.mem exact (c.c_as, c.c_addr))
                             then Hashtbl.add exact (c.c_as, c.c_addr) c.c_res) cells;
  let regions = Stdlib.List.filter (fun c -> c.c_kind = 2) cells in
  fun a addr ->
    match Hashtbl.find_opt exact (a, addr) with
    | Some r -> r
    | None ->
        (match Stdlib.List.find_opt (fun c -> c.c_as = a &&
                   BinNat.N.leb c.c_addr addr && BinNat.N.ltb (BinNat.N.sub addr c.c_addr) c.c_len) regions with
         | Some _ -> Step.RdOk N0
         | None -> Step.RdErr Step.NODATA)

let parse_pgt fmt fs ras root mask tgt =
  let pf = { Step.pte_format = Eng_walk.fmt_of_string fmt; Step.fieldsz = Eng_walk.parse_fields fs } in
  ({ Step.m_kind = Step.KPgt (as_of_string ras, n_of_hex root, n_of_hex mask, pf);
     Step.m_target = as_of_string tgt }, pf)

let lvl_fuel = nat_of_int 12
let loop_fuel = nat_of_int 100000

let run_scan fn fmt fs ras root mask tgt addr limit off cells : string =
  let mem = mem_of_cells (Stdlib.List.map parse_cell cells) in
  let (m, pf) = parse_pgt fmt fs ras root mask tgt in
  let addr = n_of_hex addr and limit = n_of_hex limit and off = n_of_hex off in
  let show3 withbase ((st, s), a) =
    Eng_walk.string_of_status st ^
    (if st = Step.OK || st = Step.NOTPRESENT then " " ^ hex_of_n a else "") ^
    (if withbase && st = Step.OK then " " ^ string_of_as s.Step.s_as ^ ":" ^ hex_of_n s.Step.s_base else "") in
  match fn with
  | "lm" -> show3 true (ScanModel.lowest_mapped mem m pf lvl_fuel addr limit)
  | "hm" -> show3 true (ScanModel.highest_mapped mem m pf lvl_fuel addr limit)
  | "lu" -> show3 false (ScanModel.lowest_unmapped mem m pf lvl_fuel addr limit)
  | "hl" ->
      let kv2kphys a =
        match Step.addrxlat_walk mem m (nat_of_int 64) (Step.init_step a) with
        | (Step.OK, s) -> if s.Step.s_as = Step.KPHYSADDR then (Step.OK, s.Step.s_base) else (Step.NOMETH, N0)
        | (st, _) -> (st, N0) in
      let (st, a) = ScanModel.highest_linear mem m pf kv2kphys loop_fuel lvl_fuel addr limit off in
      Eng_walk.string_of_status st ^ (if st = Step.OK || st = Step.NOTPRESENT then " " ^ hex_of_n a else "")
  | _ -> failwith "bad scan function"

let run_case (line : string) : string =
  match words line with
  | "lay" :: calls -> run_lay calls
  | "scan" :: fn :: fmt :: fs :: ras :: root :: mask :: tgt :: _bo :: addr :: limit :: off :: cells ->
      run_scan fn fmt fs ras root mask tgt addr limit off cells
  | _ -> failwith "bad case"

(* ---- spec mode: "<case> => <implementation's output> [=> <probe> ...]" -> "ok" or the reason ---- *)

(* parse " M0=..; M1=..; ... m2=L:0:off ..." *)
let parse_dump (toks : string list) =
  let maps = Array.make 5 None and meths = Hashtbl.create 8 in
  Stdlib.List.iter (fun t ->
    match String.index_opt t '=' with
    | None -> ()
    | Some i ->
        let k = String.sub t 0 i and v = String.sub t (i + 1) (String.length t - i - 1) in
        if k.[0] = 'M' then begin
          let v = if v <> "" && v.[String.length v - 1] = ';' then String.sub v 0 (String.length v - 1) else v in
          let idx = int_of_string (String.sub k 1 (String.length k - 1)) in
          if v = "-" then maps.(idx) <- None
          else maps.(idx) <- Some (if v = "" then [] else Stdlib.List.map (fun r ->
            match split_on ':' r with
            | [e; m] -> { MapModel.endoff = n_of_hex e; MapModel.meth = z_of_hex m }
            | _ -> failwith "bad range") (split_on ',' v))
        end else if k.[0] = 'm' then
          Hashtbl.replace meths (int_of_string (String.sub k 1 (String.length k - 1))) (split_on ':' v)) toks;
  (maps, meths)

let map_index = function MAP_HW -> 0 | MAP_KV_PHYS -> 1 | MAP_KPHYS_DIRECT -> 2 | MAP_MACHPHYS_KPHYS -> 3 | MAP_KPHYS_MACHPHYS -> 4

let maxa = n_of_hex "ffffffffffffffff"
let around (x : coq_N) : coq_N list =
  [x] @ (if x = N0 then [] else [BinNat.N.pred x]) @ (if x = maxa then [] else [BinNat.N.add x (n_of_hex "1")])

let spec_lay (calls : string list) (out : string list) : string =
  match out with
  | [] -> "no output"
  | sts :: dump ->
    if Stdlib.List.exists (fun t -> t <> "0") (split_on ',' sts) then "a layout call failed: " ^ sts else
    let (maps, meths) = parse_dump dump in
    (* expected functions, call by call *)
    let f = Array.make 5 (fun (_ : coq_N) -> MapModel.coq_NONE) in
    let probes = ref [N0; maxa] in
    let lastdirect = ref None in
    Stdlib.List.iter (fun c ->
      let regions =
        if c.[0] = 'P' then
          let mx = n_of_hex (String.sub c 1 (String.length c - 1)) in
          [ (3, { r_first = N0; r_last = mx; r_meth = coq_METH_MACHPHYS_KPHYS; r_act = ACT_IDENT_KPHYS });
            (4, { r_first = N0; r_last = mx; r_meth = coq_METH_KPHYS_MACHPHYS; r_act = ACT_IDENT_MACHPHYS }) ]
        else match split_on ':' c with
          | [h; rs] ->
              let idx = int_of_string ("0x" ^ String.sub h 1 (String.length h - 1)) in
              Stdlib.List.map (fun r -> (idx, parse_region r)) (split_on ',' rs)
          | _ -> failwith "bad call" in
      Stdlib.List.iter (fun (idx, r) ->
        probes := around r.r_first @ around r.r_last @ !probes;
        if r.r_act = ACT_DIRECT then begin
          let rd = LayoutSpec.rdirect_region r in
          probes := around rd.r_last @ !probes;
          f.(2) <- LayoutSpec.region_denote f.(2) rd;
          if r.r_meth = coq_METH_DIRECT then lastdirect := Some r
        end else if r.r_act = ACT_RDIRECT || r.r_meth = coq_METH_DIRECT || r.r_meth = coq_METH_RDIRECT then
          lastdirect := None;
        f.(idx) <- LayoutSpec.region_denote f.(idx) r) regions) calls;
    let bad = ref "" in
    Array.iteri (fun k fk ->
      Stdlib.List.iter (fun x ->
        if !bad = "" && LayoutSpec.mdenote maps.(k) x <> fk x then
          bad := Printf.sprintf "map %d sends %s to method %s, the layout says %s" k (hex_of_n x)
                   (hex_of_z (LayoutSpec.mdenote maps.(k) x)) (hex_of_z (fk x))) !probes;
      (match maps.(k) with
       | Some m when not (MapSpec.tilesb m) && !bad = "" -> bad := Printf.sprintf "map %d does not tile the address space" k
       | _ -> ())) f;
    (match !lastdirect with
     | Some r when !bad = "" ->
         (match Hashtbl.find_opt meths 2, Hashtbl.find_opt meths 5 with
          | Some ["L"; "0"; d], Some ["L"; "2"; rd] ->
              let d = z_of_hex d and rd = z_of_hex rd in
              let mid = BinNat.N.add r.r_first (BinNat.N.div (BinNat.N.sub r.r_last r.r_first) (n_of_hex "2")) in
              Stdlib.List.iter (fun v ->
                let p = LayoutSpec.lin d v in
                if !bad = "" && (p <> BinNat.N.sub v r.r_first || LayoutSpec.lin rd p <> v) then
                  bad := Printf.sprintf "direct/reverse direct are not inverse at %s (direct gives %s, back %s)"
                           (hex_of_n v) (hex_of_n p) (hex_of_n (LayoutSpec.lin rd p))) [r.r_first; r.r_last; mid]
          | _ -> bad := "direct / reverse direct methods are not the expected linear methods")
     | _ -> ());
    if !bad = "" then "ok" else !bad

let spec_scan fn fmt fs ras root mask tgt addr limit off cells (out : string list) (probes : string list) : string =
  let mem = mem_of_cells (Stdlib.List.map parse_cell cells) in
  let (m, pf) = parse_pgt fmt fs ras root mask tgt in
  let addr = n_of_hex addr and limit = n_of_hex limit and off = n_of_hex off in
  let probes = Stdlib.List.map n_of_hex probes in
  let walk a = match ArchSpec.spec_meth mem m a with Some o -> o | None -> (Step.NOTIMPL, None) in
  let pshift = match pf.Step.fieldsz with b :: _ -> b | [] -> N0 in
  match out with
  | st :: rest ->
      let st = Eng_walk.status_of_int (int_of_string st) in
      let r = match rest with a :: _ -> n_of_hex a | [] -> N0 in
      let ok = match fn with
        | "lm" -> ScanSpec.check_lowest_mapped walk pshift addr limit probes st r
        | "hm" -> ScanSpec.check_highest_mapped walk pshift addr limit probes st r
        | "lu" -> ScanSpec.check_lowest_unmapped walk pshift addr limit probes st r
        | "hl" -> ScanSpec.check_highest_linear walk addr limit off probes st r
        | _ -> false in
      let baseok = match fn, st, rest with
        | ("lm" | "hm"), Step.OK, [_; b] ->
            (match walk r with
             | (Step.OK, Some (a, p)) -> b = string_of_as a ^ ":" ^ hex_of_n p
             | _ -> false)
        | _ -> true in
      if not ok then "the answer contradicts the architectural walk at the probes"
      else if not baseok then "the translated address of the found page differs from the architectural walk"
      else "ok"
  | [] -> "no output"

let split_arrow (line : string) : string list list =
  (* split the words of the line at "=>" *)
  let rec go acc cur = function
    | [] -> Stdlib.List.rev (Stdlib.List.rev cur :: acc)
    | "=>" :: t -> go (Stdlib.List.rev cur :: acc) [] t
    | w :: t -> go acc (w :: cur) t in
  go [] [] (words line)

let spec_case (line : string) : string =
  match split_arrow line with
  | case :: out :: rest ->
      let probes = match rest with p :: _ -> p | [] -> [] in
      (match case with
       | "lay" :: calls -> spec_lay calls out
       | "scan" :: fn :: fmt :: fs :: ras :: root :: mask :: tgt :: _bo :: addr :: limit :: off :: cells ->
           spec_scan fn fmt fs ras root mask tgt addr limit off cells out probes
       | _ -> "nospec")
  | _ -> failwith "bad spec line"

let engines = [ "sysos", run_case; "sysos-spec", spec_case ]
