(* engine "sysos" (C08): same case syntax as harness/sysos_drv.c *)
open Util
open BinNums
open LayoutModel

let string_of_as = function Step.KPHYSADDR -> "0" | Step.MACHPHYSADDR -> "1" | Step.KVADDR -> "2" | Step.NOADDR -> "-1"
let as_of_string = function
  | "0" -> Step.KPHYSADDR | "1" -> Step.MACHPHYSADDR | "2" -> Step.KVADDR | "-1" -> Step.NOADDR
  | s -> failwith ("bad address space " ^ s)

let fmt_name = function
  | Step.PTE_NONE -> "none" | Step.PTE_PFN32 -> "pfn32" | Step.PTE_PFN64 -> "pfn64"
  | Step.PTE_AARCH64 -> "aarch64" | Step.PTE_AARCH64_LPA -> "aarch64_lpa" | Step.PTE_AARCH64_LPA2 -> "aarch64_lpa2"
  | Step.PTE_ARM -> "arm" | Step.PTE_IA32 -> "ia32" | Step.PTE_IA32_PAE -> "ia32_pae"
  | Step.PTE_PPC64_LINUX_RPN30 -> "ppc64_linux_rpn30" | Step.PTE_RISCV32 -> "riscv32"
  | Step.PTE_RISCV64 -> "riscv64" | Step.PTE_S390X -> "s390x" | Step.PTE_X86_64 -> "x86_64"

let string_of_lstatus = function
  | L_OK -> "0"
  | L_ERR st -> Eng_walk.string_of_status st
  | L_BADIDX -> "UB-index" | L_OVERFLOW -> "UB-overflow" | L_MAPOOB -> "UB-map"

let all_maps = [MAP_HW; MAP_KV_PHYS; MAP_KPHYS_DIRECT; MAP_MACHPHYS_KPHYS; MAP_KPHYS_MACHPHYS]

let dump_sys (s : sys) : string =
  let b = Buffer.create 256 in
  Stdlib.List.iteri (fun i mi ->
    Buffer.add_string b (Printf.sprintf " M%d=" i);
    (match get_map s mi with
     | None -> Buffer.add_char b '-'
     | Some m -> Buffer.add_string b (String.concat "," (Stdlib.List.map (fun r ->
         hex_of_n r.MapModel.endoff ^ ":" ^ hex_of_z r.MapModel.meth) m)));
    Buffer.add_char b ';') all_maps;
  for i = 0 to 15 do
    let m = get_meth s (nat_of_int i) in
    let tgt = string_of_as m.sm.Step.m_target in
    match m.sm.Step.m_kind with
    | Step.KNone -> ()
    | Step.KLinear off -> Buffer.add_string b (Printf.sprintf " m%d=L:%s:%s" i tgt (hex_of_z off))
    | Step.KPgt (ras, root, mask, pf) ->
        Buffer.add_string b (Printf.sprintf " m%d=P:%s:%s:%s:%s:%s:%s" i (string_of_as ras) (hex_of_n root)
          (hex_of_n mask) (fmt_name pf.Step.pte_format)
          (String.concat "," (Stdlib.List.map hex_of_n pf.Step.fieldsz)) tgt)
    | Step.KMemarr (bas, base, shift, esz, vsz) ->
        Buffer.add_string b (Printf.sprintf " m%d=A:%s:%s:%s:%s:%s:%s" i (string_of_as bas) (hex_of_n base)
          (hex_of_n shift) (hex_of_n esz) (hex_of_n vsz) tgt)
    | _ -> Buffer.add_string b (Printf.sprintf " m%d=?" i)
  done;
  Buffer.contents b

let map_of_int = function
  | 0 -> MAP_HW | 1 -> MAP_KV_PHYS | 2 -> MAP_KPHYS_DIRECT | 3 -> MAP_MACHPHYS_KPHYS | 4 -> MAP_KPHYS_MACHPHYS
  | _ -> failwith "bad map index"
let act_of_int = function
  | 0 -> ACT_NONE | 1 -> ACT_DIRECT | 2 -> ACT_RDIRECT | 3 -> ACT_IDENT_KPHYS | 4 -> ACT_IDENT_MACHPHYS
  | _ -> failwith "bad action"

let parse_region (s : string) : region =
  match split_on '-' s with
  | [f; l; m; a] -> { r_first = n_of_hex f; r_last = n_of_hex l;
                      r_meth = nat_of_int (int_of_string ("0x" ^ m)); r_act = act_of_int (int_of_string ("0x" ^ a)) }
  | _ -> failwith ("bad region " ^ s)

let run_lay (calls : string list) : string =
  let sts = ref [] in
  let s = ref sys_new in
  Stdlib.List.iter (fun c ->
    let (st, s') =
      if c.[0] = 'P' then sys_set_physmaps !s (n_of_hex (String.sub c 1 (String.length c - 1)))
      else match split_on ':' c with
        | [h; rs] ->
            let idx = map_of_int (int_of_string ("0x" ^ String.sub h 1 (String.length h - 1))) in
            sys_set_layout !s idx (Stdlib.List.map parse_region (split_on ',' rs))
        | _ -> failwith ("bad call " ^ c) in
    s := s'; sts := string_of_lstatus st :: !sts) calls;
  String.concat "," (Stdlib.List.rev !sts) ^ dump_sys !s

(* ---- sparse memory: exact cells, failing cells, zero-filled regions ---- *)
type cell = { c_as : Step.aspace; c_addr : coq_N; c_kind : int; c_res : Step.rdres; c_len : coq_N }

let parse_cell (s : string) : cell =
  match split_on ':' s with
  | [a; rest] ->
      let cut c = match String.index_opt rest c with
        | Some i -> Some (String.sub rest 0 i, String.sub rest (i + 1) (String.length rest - i - 1))
        | None -> None in
      (match cut '=', cut '!', cut '~' with
       | Some (ad, v), _, _ ->
           { c_as = as_of_string a; c_addr = n_of_hex ad; c_kind = 0; c_res = Step.RdOk (n_of_hex v); c_len = N0 }
       | _, Some (ad, st), _ ->
           { c_as = as_of_string a; c_addr = n_of_hex ad; c_kind = 1;
             c_res = Step.RdErr (Eng_walk.status_of_int (int_of_z (z_of_hex st))); c_len = N0 }
       | _, _, Some (ad, l) ->
           { c_as = as_of_string a; c_addr = n_of_hex ad; c_kind = 2; c_res = Step.RdOk N0; c_len = n_of_hex l }
       | _ -> failwith ("bad cell " ^ s))
  | _ -> failwith ("bad cell " ^ s)

let mem_of_cells (cells : cell list) : Step.aspace -> coq_N -> Step.rdres =
  let exact = Hashtbl.create 64 in
  Stdlib.List.iter (fun c -> if c.c_kind <> 2 && not (Hashtbl.mem exact (c.c_as, c.c_addr))
                             then Hashtbl.add exact (c.c_as, c.c_addr) c.c_res) cells;
  let regions = Stdlib.List.filter (fun c -> c.c_kind = 2) cells in
  fun a addr ->
    match Hashtbl.find_opt exact (a, addr) with
    | Some r -> r
    | None ->
        (match Stdlib.List.find_opt (fun c -> c.c_as = a &&
                   BinNat.N.leb c.c_addr addr && BinNat.N.ltb (BinNat.N.sub addr c.c_addr) c.c_len) regions with
         | Some _ -> Step.RdOk N0
         | None -> Step.RdErr Step.NODATA)

let parse_pgt fmt fs ras root mask tgt =
  let pf = { Step.pte_format = Eng_walk.fmt_of_string fmt; Step.fieldsz = Eng_walk.parse_fields fs } in
  ({ Step.m_kind = Step.KPgt (as_of_string ras, n_of_hex root, n_of_hex mask, pf);
     Step.m_target = as_of_string tgt }, pf)

let lvl_fuel = nat_of_int 12
let loop_fuel = nat_of_int 100000

let run_scan fn fmt fs ras root mask tgt addr limit off cells : string =
  let mem = mem_of_cells (Stdlib.List.map parse_cell cells) in
  let (m, pf) = parse_pgt fmt fs ras root mask tgt in
  let addr = n_of_hex addr and limit = n_of_hex limit and off = n_of_hex off in
  let show3 withbase ((st, s), a) =
    Eng_walk.string_of_status st ^
    (if st = Step.OK || st = Step.NOTPRESENT then " " ^ hex_of_n a else "") ^
    (if withbase && st = Step.OK then " " ^ string_of_as s.Step.s_as ^ ":" ^ hex_of_n s.Step.s_base else "") in
  match fn with
  | "lm" -> show3 true (ScanModel.lowest_mapped mem m pf lvl_fuel addr limit)
  | "hm" -> show3 true (ScanModel.highest_mapped mem m pf lvl_fuel addr limit)
  | "lu" -> show3 false (ScanModel.lowest_unmapped mem m pf lvl_fuel addr limit)
  | "hl" ->
      let kv2kphys a =
        match Step.addrxlat_walk mem m (nat_of_int 64) (Step.init_step a) with
        | (Step.OK, s) -> if s.Step.s_as = Step.KPHYSADDR then (Step.OK, s.Step.s_base) else (Step.NOMETH, N0)
        | (st, _) -> (st, N0) in
      let (st, a) = ScanModel.highest_linear mem m pf kv2kphys loop_fuel lvl_fuel addr limit off in
      Eng_walk.string_of_status st ^ (if st = Step.OK || st = Step.NOTPRESENT then " " ^ hex_of_n a else "")
  | _ -> failwith "bad scan function"

(* ---- os ---- *)
open LinuxX86Model

let is_cell_tok (t : string) : bool =
  String.length t > 2 && (t.[0] = '0' || t.[0] = '1' || t.[0] = '2' || t.[0] = '-') &&
  (match String.index_opt t ':' with Some i -> i <= 2 | None -> false)

let hl_fuel = nat_of_int 200000

type oscase = { img : image; queries : string list; root_phys : coq_N option; nfields_hint : int }

let parse_os (toks : string list) : oscase =
  let names = Hashtbl.create 16 in
  let os = ref OS_UNKNOWN and ver = ref None and pb = ref None and root = ref None and vb = ref None
  and xx = ref None and caps = ref 0 and cells = ref [] and qs = ref [] and rp = ref None and psh = ref None in
  let optn v = if v = "-" then None else Some (n_of_hex v) in
  Stdlib.List.iter (fun t ->
    let after k = String.sub t k (String.length t - k) in
    if String.length t >= 3 && String.sub t 0 3 = "os=" then
      os := (match after 3 with "l" -> OS_LINUX | "x" -> OS_XEN | _ -> OS_UNKNOWN)
    else if String.length t >= 4 && String.sub t 0 4 = "ver=" then ver := optn (after 4)
    else if String.length t >= 3 && String.sub t 0 3 = "pb=" then pb := optn (after 3)
    else if String.length t >= 3 && String.sub t 0 3 = "vb=" then vb := optn (after 3)
    else if String.length t >= 3 && String.sub t 0 3 = "rp=" then
      rp := (match split_on ':' (after 3) with [_; x] -> Some (n_of_hex x) | [x] -> optn x | _ -> None)
    else if String.length t >= 3 && String.sub t 0 3 = "ps=" then psh := optn (after 3)
    else if String.length t >= 3 && (String.sub t 0 3 = "bo=" || String.sub t 0 3 = "nf=" || String.sub t 0 3 = "dm="
                                     || String.sub t 0 3 = "fs=" || String.sub t 0 3 = "tg=") then ()
    else if String.length t >= 4 && String.sub t 0 4 = "fmt=" then ()
    else if String.length t >= 5 && String.sub t 0 5 = "hist=" then ()
    else if String.length t >= 5 && String.sub t 0 5 = "arch=" then ()
    else if String.length t >= 6 && String.sub t 0 6 = "pbits=" then ()
    else if String.length t > 2 && t.[1] = ':' && (t.[0] = 'Z' || t.[0] = 'O') then ()
    else if String.length t >= 3 && String.sub t 0 3 = "xx=" then
      xx := (match after 3 with "-" -> None | "0" -> Some false | _ -> Some true)
    else if String.length t >= 5 && String.sub t 0 5 = "root=" then
      root := (match after 5 with
               | "-" -> None
               | v -> (match split_on ':' v with
                       | [a; x] -> Some (as_of_string a, n_of_hex x)
                       | _ -> failwith "bad root"))
    else if String.length t >= 5 && String.sub t 0 5 = "caps=" then caps := int_of_string ("0x" ^ after 5)
    else if String.length t > 2 && t.[1] = ':' && (t.[0] = 'S' || t.[0] = 'R' || t.[0] = 'N') then begin
      let body = after 2 in
      match String.index_opt body '=', String.index_opt body '!' with
      | Some i, _ -> Hashtbl.replace names (t.[0], String.sub body 0 i)
                       (CbOk (n_of_hex (String.sub body (i + 1) (String.length body - i - 1))))
      | None, Some i -> Hashtbl.replace names (t.[0], String.sub body 0 i)
                       (CbErr (Eng_walk.status_of_int (int_of_z (z_of_hex (String.sub body (i + 1) (String.length body - i - 1))))))
      | _ -> ()
    end
    else if String.length t > 2 && t.[1] = ':' && (t.[0] = 'Q' || t.[0] = 'P') then qs := t :: !qs
    else if is_cell_tok t then cells := t :: !cells
    else failwith ("bad os token " ^ t)) toks;
  let nm k n = match Hashtbl.find_opt names (k, n) with Some r -> r | None -> CbErr Step.NODATA in
  let mem = mem_of_cells (Stdlib.List.rev_map parse_cell !cells) in
  { img = { i_os = !os; i_version = !ver; i_phys_base = !pb; i_rootpgt = !root; i_virt_bits = !vb;
            i_xen_xlat = !xx; i_page_shift = !psh;
            sym_init_top_pgt = nm 'S' "init_top_pgt"; sym_init_level4_pgt = nm 'S' "init_level4_pgt";
            sym_stext = nm 'S' "_stext"; sym_text = nm 'S' "_text";
            sym_page_offset_base = nm 'S' "page_offset_base";
            reg_cr3 = nm 'R' "cr3"; reg_cr4 = nm 'R' "cr4";
            num_sme_mask = nm 'N' "sme_mask"; num_pgtable_l5_enabled = nm 'N' "pgtable_l5_enabled";
            sym_swapper_pg_dir = nm 'S' "swapper_pg_dir"; num_va_kernel_pa_offset = nm 'N' "va_kernel_pa_offset";
            num_PAGE_OFFSET = nm 'N' "PAGE_OFFSET"; num_VA_BITS = nm 'N' "VA_BITS";
            num_kimage_voffset = nm 'N' "kimage_voffset"; num_TCR_EL1_T1SZ = nm 'N' "TCR_EL1_T1SZ";
            caps_kphys = !caps land 1 <> 0; caps_machphys = !caps land 2 <> 0; caps_kv = !caps land 4 <> 0;
            raw = mem };
    queries = Stdlib.List.rev !qs; root_phys = !rp; nfields_hint = 0 }

let string_of_ostatus = function
  | O_ST st -> Eng_walk.string_of_status st
  | O_L l -> string_of_lstatus l
  | O_UNMODELLED -> "unmodelled"

let run_os (toks : string list) : string =
  let arch = Stdlib.List.fold_left (fun a t ->
    if String.length t > 5 && String.sub t 0 5 = "arch=" then String.sub t 5 (String.length t - 5) else a) "x86_64" toks in
  if (arch <> "x86_64" && arch <> "riscv64" && arch <> "aarch64") || Stdlib.List.mem "os=x" toks then "nomodel" else
  let c = parse_os toks in
  let (st, s) = match arch with
    | "riscv64" -> LinuxRvA64Model.sys_riscv64 c.img hl_fuel
    | "aarch64" -> LinuxRvA64Model.sys_aarch64 c.img
    | _ -> sys_x86_64 c.img hl_fuel in
  let b = Buffer.create 512 in
  Buffer.add_string b (string_of_ostatus st);
  Buffer.add_string b (dump_sys s);
  let show (st, r) = Eng_walk.string_of_status st ^ (if st = Step.OK then ":" ^ hex_of_n r else "") in
  let show_q a =
    Buffer.add_string b (Printf.sprintf " q%s=%s/%s" (hex_of_n a)
      (show (xlat_via c.img s MAP_KV_PHYS Step.KPHYSADDR a)) (show (xlat_via c.img s MAP_HW Step.KPHYSADDR a))) in
  let show_p a =
    let (st1, v) = xlat_via c.img s MAP_KPHYS_DIRECT Step.KVADDR a in
    Buffer.add_string b (Printf.sprintf " p%s=%s" (hex_of_n a) (show (st1, v)));
    if st1 = Step.OK then
      Buffer.add_string b ("/" ^ show (xlat_via c.img s MAP_KV_PHYS Step.KPHYSADDR v)) in
  Stdlib.List.iter (fun q ->
    let a = n_of_hex (String.sub q 2 (String.length q - 2)) in
    if q.[0] = 'Q' then show_q a else show_p a) c.queries;
  (* every range of the forward and of the reverse map: both ends, one page inside, the middle *)
  let two = n_of_hex "2" and pg = n_of_hex "1000" and pg2 = n_of_hex "2000" in
  Stdlib.List.iter (fun (mi, f) ->
    match get_map s mi with
    | None -> ()
    | Some m ->
      let first = ref N0 in
      Stdlib.List.iteri (fun j r ->
        let e = r.MapModel.endoff in
        if j < 16 then begin
          if r.MapModel.meth <> MapModel.coq_NONE && (match r.MapModel.meth with Zneg _ -> false | _ -> true) then begin
            let pts = [!first; BinNat.N.add !first e] @
                      (if BinNat.N.leb pg2 e then [BinNat.N.add !first pg; BinNat.N.sub (BinNat.N.add !first e) pg] else []) @
                      [BinNat.N.add !first (BinNat.N.div e two)] in
            Stdlib.List.iter f pts
          end;
          first := BinNat.N.add (BinNat.N.add !first e) (n_of_hex "1")
        end) m) [ (MAP_KV_PHYS, show_q); (MAP_KPHYS_DIRECT, show_p) ];
  Buffer.contents b

let run_ia32dm (vs : string) : string =
  let v = if vs = "-" then None else Some (n_of_hex vs) in
  let (st, s) = LayoutArchModel.ia32_linux_maps sys_new v in
  string_of_lstatus st ^ dump_sys s

let run_lindm first last off : string =
  let (st, s) = LayoutArchModel.map_direct sys_new (n_of_hex first) (n_of_hex last) (z_of_hex off) in
  string_of_lstatus st ^ dump_sys s

let run_case (line : string) : string =
  match words line with
  | "lay" :: calls -> run_lay calls
  | ["ia32dm"; vs] -> run_ia32dm vs
  | ["lindm"; first; last; off] -> run_lindm first last off
  | "os" :: toks -> run_os toks
  | "scan" :: fn :: fmt :: fs :: ras :: root :: mask :: tgt :: _bo :: addr :: limit :: off :: cells ->
      run_scan fn fmt fs ras root mask tgt addr limit off cells
  | _ -> failwith "bad case"

(* ---- spec mode: "<case> => <implementation's output> [=> <probe> ...]" -> "ok" or the reason ---- *)

(* parse " M0=..; M1=..; ... m2=L:0:off ..." *)
let parse_dump (toks : string list) =
  let maps = Array.make 5 None and meths = Hashtbl.create 8 in
  Stdlib.List.iter (fun t ->
    match String.index_opt t '=' with
    | None -> ()
    | Some i ->
        let k = String.sub t 0 i and v = String.sub t (i + 1) (String.length t - i - 1) in
        if k.[0] = 'M' then begin
          let v = if v <> "" && v.[String.length v - 1] = ';' then String.sub v 0 (String.length v - 1) else v in
          let idx = int_of_string (String.sub k 1 (String.length k - 1)) in
          if v = "-" then maps.(idx) <- None
          else maps.(idx) <- Some (if v = "" then [] else Stdlib.List.map (fun r ->
            match split_on ':' r with
            | [e; m] -> { MapModel.endoff = n_of_hex e; MapModel.meth = z_of_hex m }
            | _ -> failwith "bad range") (split_on ',' v))
        end else if k.[0] = 'm' then
          Hashtbl.replace meths (int_of_string (String.sub k 1 (String.length k - 1))) (split_on ':' v)) toks;
  (maps, meths)

let map_index = function MAP_HW -> 0 | MAP_KV_PHYS -> 1 | MAP_KPHYS_DIRECT -> 2 | MAP_MACHPHYS_KPHYS -> 3 | MAP_KPHYS_MACHPHYS -> 4

let maxa = n_of_hex "ffffffffffffffff"
let around (x : coq_N) : coq_N list =
  [x] @ (if x = N0 then [] else [BinNat.N.pred x]) @ (if x = maxa then [] else [BinNat.N.add x (n_of_hex "1")])

let spec_lay (calls : string list) (out : string list) : string =
  match out with
  | [] -> "no output"
  | sts :: dump ->
    if Stdlib.List.exists (fun t -> t <> "0") (split_on ',' sts) then "a layout call failed: " ^ sts else
    let (maps, meths) = parse_dump dump in
    (* expected functions, call by call *)
    let f = Array.make 5 (fun (_ : coq_N) -> MapModel.coq_NONE) in
    let probes = ref [N0; maxa] in
    let lastdirect = ref None in
    Stdlib.List.iter (fun c ->
      let regions =
        if c.[0] = 'P' then
          let mx = n_of_hex (String.sub c 1 (String.length c - 1)) in
          [ (3, { r_first = N0; r_last = mx; r_meth = coq_METH_MACHPHYS_KPHYS; r_act = ACT_IDENT_KPHYS });
            (4, { r_first = N0; r_last = mx; r_meth = coq_METH_KPHYS_MACHPHYS; r_act = ACT_IDENT_MACHPHYS }) ]
        else match split_on ':' c with
          | [h; rs] ->
              let idx = int_of_string ("0x" ^ String.sub h 1 (String.length h - 1)) in
              Stdlib.List.map (fun r -> (idx, parse_region r)) (split_on ',' rs)
          | _ -> failwith "bad call" in
      Stdlib.List.iter (fun (idx, r) ->
        probes := around r.r_first @ around r.r_last @ !probes;
        if r.r_act = ACT_DIRECT then begin
          let rd = LayoutSpec.rdirect_region r in
          probes := around rd.r_last @ !probes;
          f.(2) <- LayoutSpec.region_denote f.(2) rd;
          if r.r_meth = coq_METH_DIRECT then lastdirect := Some r
        end else if r.r_act = ACT_RDIRECT || r.r_meth = coq_METH_DIRECT || r.r_meth = coq_METH_RDIRECT then
          lastdirect := None;
        f.(idx) <- LayoutSpec.region_denote f.(idx) r) regions) calls;
    let bad = ref "" in
    Array.iteri (fun k fk ->
      Stdlib.List.iter (fun x ->
        if !bad = "" && LayoutSpec.mdenote maps.(k) x <> fk x then
          bad := Printf.sprintf "map %d sends %s to method %s, the layout says %s" k (hex_of_n x)
                   (hex_of_z (LayoutSpec.mdenote maps.(k) x)) (hex_of_z (fk x))) !probes;
      (match maps.(k) with
       | Some m when not (MapSpec.tilesb m) && !bad = "" -> bad := Printf.sprintf "map %d does not tile the address space" k
       | _ -> ())) f;
    (match !lastdirect with
     | Some r when !bad = "" ->
         (match Hashtbl.find_opt meths 2, Hashtbl.find_opt meths 5 with
          | Some ["L"; "0"; d], Some ["L"; "2"; rd] ->
              let d = z_of_hex d and rd = z_of_hex rd in
              let mid = BinNat.N.add r.r_first (BinNat.N.div (BinNat.N.sub r.r_last r.r_first) (n_of_hex "2")) in
              Stdlib.List.iter (fun v ->
                let p = LayoutSpec.lin d v in
                if !bad = "" && (p <> BinNat.N.sub v r.r_first || LayoutSpec.lin rd p <> v) then
                  bad := Printf.sprintf "direct/reverse direct are not inverse at %s (direct gives %s, back %s)"
                           (hex_of_n v) (hex_of_n p) (hex_of_n (LayoutSpec.lin rd p))) [r.r_first; r.r_last; mid]
          | _ -> bad := "direct / reverse direct methods are not the expected linear methods")
     | _ -> ());
    if !bad = "" then "ok" else !bad

let spec_scan fn fmt fs ras root mask tgt addr limit off cells (out : string list) (probes : string list) : string =
  let mem = mem_of_cells (Stdlib.List.map parse_cell cells) in
  let (m, pf) = parse_pgt fmt fs ras root mask tgt in
  let addr = n_of_hex addr and limit = n_of_hex limit and off = n_of_hex off in
  let probes = Stdlib.List.map n_of_hex probes in
  let walk a = match ArchSpec.spec_meth mem m a with Some o -> o | None -> (Step.NOTIMPL, None) in
  let pshift = match pf.Step.fieldsz with b :: _ -> b | [] -> N0 in
  match out with
  | st :: rest ->
      let st = Eng_walk.status_of_int (int_of_string st) in
      let r = match rest with a :: _ -> n_of_hex a | [] -> N0 in
      let ok = match fn with
        | "lm" -> ScanSpec.check_lowest_mapped walk pshift addr limit probes st r
        | "hm" -> ScanSpec.check_highest_mapped walk pshift addr limit probes st r
        | "lu" -> ScanSpec.check_lowest_unmapped walk pshift addr limit probes st r
        | "hl" -> ScanSpec.check_highest_linear walk addr limit off probes st r
        | _ -> false in
      let baseok = match fn, st, rest with
        | ("lm" | "hm"), Step.OK, [_; b] ->
            (match walk r with
             | (Step.OK, Some (a, p)) -> b = string_of_as a ^ ":" ^ hex_of_n p
             | _ -> false)
        | _ -> true in
      if not ok then "the answer contradicts the architectural walk at the probes"
      else if not baseok then "the translated address of the found page differs from the architectural walk"
      else "ok"
  | [] -> "no output"

(* the property on the implementation's own answers: every address the image's tables map
   (C02's architectural walk from the physical root the generator used) translates to that
   physical address through MAP_HW and through MAP_KV_PHYS; reverse direct map round trip *)
let spec_os (toks : string list) (out : string list) : string =
  let hint k = Stdlib.List.find_map (fun t ->
    let n = String.length k in
    if String.length t > n && String.sub t 0 n = k then Some (String.sub t n (String.length t - n)) else None) toks in
  let c = parse_os toks in
  let dm = match hint "dm=" with Some d -> Some (n_of_hex d) | None -> None in
  let phys (x : coq_N) : Step.rdres =
    match c.img.raw Step.MACHPHYSADDR x with
    | Step.RdOk v -> Step.RdOk v
    | _ -> (match c.img.raw Step.KPHYSADDR x with
            | Step.RdOk v -> Step.RdOk v
            | r -> (match dm with Some d -> c.img.raw Step.KVADDR (BinNat.N.add d x) | None -> r)) in
  let mem a x = match a with
    | Step.MACHPHYSADDR | Step.KPHYSADDR -> phys x
    | _ -> c.img.raw a x in
  (* the architectural walk from the true root, when the image has page tables *)
  let arch : (coq_N -> Step.outcome) option =
    match hint "rp=", hint "fmt=", hint "fs=", hint "nf=" with
    | Some rp, fmt, fs, nf ->
        let (ras, raddr) = match split_on ':' rp with
          | [a; x] -> (as_of_string a, n_of_hex x)
          | _ -> (Step.MACHPHYSADDR, n_of_hex rp) in
        let fmtname = match fmt with Some f -> f | None -> "x86_64" in
        let fields = match fs, nf with
          | Some f, _ -> Eng_walk.parse_fields f
          | None, Some "6" -> Stdlib.List.map n_of_hex ["c";"9";"9";"9";"9";"9"]
          | _ -> Stdlib.List.map n_of_hex ["c";"9";"9";"9";"9"] in
        let tg = match hint "tg=" with Some t -> as_of_string t | None -> Step.MACHPHYSADDR in
        let mask = match c.img.num_sme_mask with CbOk v -> v | _ -> N0 in
        let pf = { Step.pte_format = Eng_walk.fmt_of_string fmtname; Step.fieldsz = fields } in
        let m = { Step.m_kind = Step.KPgt (ras, raddr, mask, pf); Step.m_target = tg } in
        Some (fun a -> match ArchSpec.spec_meth mem m a with Some o -> o | None -> (Step.NOTIMPL, None))
    | _ -> None in
  let bad = ref "" in
  Stdlib.List.iter (fun t ->
    if !bad = "" && String.length t > 1 && (t.[0] = 'q' || t.[0] = 'p') then
      match String.index_opt t '=' with
      | None -> ()
      | Some i ->
        let a = String.sub t 1 (i - 1) and v = String.sub t (i + 1) (String.length t - i - 1) in
        let parts = split_on '/' v in
        let is_ok r = String.length r > 1 && r.[0] = '0' && r.[1] = ':' in
        if t.[0] = 'q' then begin
          match parts, arch with
          | [kv; hw], Some arch ->
            (match arch (n_of_hex a) with
             | (Step.OK, Some (_, p)) ->
                 let want = "0:" ^ hex_of_n p in
                 if hw = want then begin
                   if kv <> want then
                     bad := Printf.sprintf "address %s: the page tables give %s, MAP_KV_PHYS gives %s" a want kv
                 end else if is_ok hw then
                   bad := Printf.sprintf "address %s: the page tables give %s, MAP_HW gives %s" a want hw
                 else if is_ok kv && kv <> want then
                   bad := Printf.sprintf "address %s: the page tables give %s, MAP_KV_PHYS gives %s" a want kv
             | (Step.NOTPRESENT, _) ->
                 if is_ok hw then
                   bad := Printf.sprintf "address %s is not mapped by the page tables, MAP_HW gives %s" a hw
             | _ -> ())
          | [_; _], None -> ()
          | _ -> bad := "malformed answer " ^ t
        end else begin
          match parts with
          | [_] -> ()
          | [fwd; back] ->
              if back <> "0:" ^ a then
                bad := Printf.sprintf "physical address %s goes to %s through the reverse direct map and comes back as %s"
                         a fwd back
          | _ -> bad := "malformed answer " ^ t
        end) out;
  if !bad = "" then "ok" else !bad

(* layout-level specs of the other architectures, on the implementation's dump *)
let check_maps (maps : MapModel.map option array) (fwd : coq_N -> coq_Z) (rev : coq_N -> coq_Z)
               (probes : coq_N list) : string =
  let bad = ref "" in
  Stdlib.List.iter (fun x ->
    if !bad = "" && LayoutSpec.mdenote maps.(1) x <> fwd x then
      bad := Printf.sprintf "KV -> PHYS sends %s to method %s, the layout says %s" (hex_of_n x)
               (hex_of_z (LayoutSpec.mdenote maps.(1) x)) (hex_of_z (fwd x));
    if !bad = "" && LayoutSpec.mdenote maps.(2) x <> rev x then
      bad := Printf.sprintf "KPHYS -> DIRECT sends %s to method %s, the image of the direct region says %s" (hex_of_n x)
               (hex_of_z (LayoutSpec.mdenote maps.(2) x)) (hex_of_z (rev x))) probes;
  if !bad = "" then "ok" else !bad

let spec_ia32dm (vs : string) (out : string list) : string =
  match out with
  | st :: dump ->
    if vs = "-" then "nospec" else
    let v = n_of_hex vs in
    let d = n_of_hex "c0000000" in
    if BinNat.N.leb v d then (if st = "3" then "ok" else "VMALLOC_START at or below the direct mapping was accepted") else
    if st <> "0" then "status " ^ st else
    let (maps, meths) = parse_dump dump in
    let probes = Stdlib.List.concat_map around
        [N0; d; v; BinNat.N.sub v d; n_of_hex "ffffffff"; n_of_hex "3fffffff"; maxa; BinNat.N.sub v (n_of_hex "1")] in
    let r = check_maps maps (LayoutSpec.ia32_fwd_spec v) (LayoutSpec.ia32_rev_spec v) probes in
    if r <> "ok" then r else
    (match Hashtbl.find_opt meths 2, Hashtbl.find_opt meths 5 with
     | Some ["L"; "0"; dd], Some ["L"; "2"; rd] ->
         let dd = z_of_hex dd and rd = z_of_hex rd in
         if LayoutSpec.lin dd d = N0 && LayoutSpec.lin rd N0 = d then "ok" else "direct / reverse direct offsets are wrong"
     | _ -> "direct / reverse direct methods are not linear")
  | [] -> "no output"

let spec_lindm first last off (out : string list) : string =
  match out with
  | st :: dump ->
    if st <> "0" then "status " ^ st else
    let first = n_of_hex first and last = n_of_hex last and off = z_of_hex off in
    let (maps, meths) = parse_dump dump in
    let probes = Stdlib.List.concat_map around
        [N0; first; last; LayoutSpec.lin off first; LayoutSpec.lin off last; maxa] in
    let r = check_maps maps (LayoutSpec.lindm_fwd_spec first last) (LayoutSpec.lindm_rev_spec first last off) probes in
    if r <> "ok" then r else
    (match Hashtbl.find_opt meths 2, Hashtbl.find_opt meths 5 with
     | Some ["L"; "0"; dd], Some ["L"; "2"; rd] ->
         let dd = z_of_hex dd and rd = z_of_hex rd in
         if dd = off && LayoutSpec.lin rd (LayoutSpec.lin dd first) = first && LayoutSpec.lin rd (LayoutSpec.lin dd last) = last
         then "ok" else "direct / reverse direct are not inverse"
     | _ -> "direct / reverse direct methods are not linear")
  | [] -> "no output"

let split_arrow (line : string) : string list list =
  (* split the words of the line at "=>" *)
  let rec go acc cur = function
    | [] -> Stdlib.List.rev (Stdlib.List.rev cur :: acc)
    | "=>" :: t -> go (Stdlib.List.rev cur :: acc) [] t
    | w :: t -> go acc (w :: cur) t in
  go [] [] (words line)

let spec_case (line : string) : string =
  match split_arrow line with
  | case :: out :: rest ->
      let probes = match rest with p :: _ -> p | [] -> [] in
      (match case with
       | "lay" :: calls -> spec_lay calls out
       | "os" :: toks -> spec_os toks out
       | ["ia32dm"; vs] -> spec_ia32dm vs out
       | ["lindm"; first; last; off] -> spec_lindm first last off out
       | "scan" :: fn :: fmt :: fs :: ras :: root :: mask :: tgt :: _bo :: addr :: limit :: off :: cells ->
           spec_scan fn fmt fs ras root mask tgt addr limit off cells out probes
       | _ -> "nospec")
  | _ -> failwith "bad spec line"

let engines = [ "sysos", run_case; "sysos-spec", spec_case ]
