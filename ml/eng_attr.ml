(* engine "attr" (C13).  A case file starts with the line
     TREE <node> <node> ...       the initial dictionary, preorder,
                                  node = <keyhex|->:<ty>:<isset><persist>:<val>:<nkids>
   optionally followed by lines
     FRESH <idx> <path>=<ty><val>,...   what a fresh context shows after opening file <idx>
   then one history per line:
     S:<c>:<key>:<ty>:<val>  G:<c>:<key>  R:<c>:<slot>:<key>  SR:<c>:<slot2>:<slot>:<subkey>
     RG:<c>:<slot>  RS:<c>:<slot>:<ty>:<val>  SS:<c>:<slot>:<subkey>:<ty>:<val>  RI:<slot>
     I:<c>:<islot>:<key>  IR:<c>:<islot>:<slot>  IN:<c>:<islot>  C:<from>:<xlat>  F:<c>  O:<idx>
   keys are hex of the key string, "@" is the NULL key (root directory), "-" the empty string;
   ty: N nil, d directory, n number, a address, s string, m bitmap, b blob;
   val: "-" | hex number | hex bytes | object id. *)
open Util
open BinNums

let bytes_of_hex (s : string) : coq_N list =
  if s = "-" || s = "" then [] else
  Stdlib.List.init (String.length s / 2) (fun i -> n_of_hex (String.sub s (2 * i) 2))
let hex_of_bytes (b : coq_N list) : string =
  if b = [] then "-" else
  String.concat "" (Stdlib.List.map (fun x -> Printf.sprintf "%02x" (int_of_n x)) b)

let show_status st = string_of_int (int_of_n (AttrBase.status_code st))

let ty_of_char = function
  | "N" -> AttrTree.TNil | "d" -> AttrTree.TDir | "n" -> AttrTree.TNum | "a" -> AttrTree.TAddr
  | "s" -> AttrTree.TStr | "m" -> AttrTree.TBmp | "b" -> AttrTree.TBlob
  | s -> failwith ("bad type " ^ s)
let char_of_ty = function
  | AttrTree.TNil -> "N" | AttrTree.TDir -> "d" | AttrTree.TNum -> "n" | AttrTree.TAddr -> "a"
  | AttrTree.TStr -> "s" | AttrTree.TBmp -> "m" | AttrTree.TBlob -> "b"

let val_of ty (s : string) : AttrTree.aval =
  if s = "-" && ty <> AttrTree.TStr then AttrTree.VNone else
  match ty with
  | AttrTree.TNum -> AttrTree.VNum (n_of_hex s)
  | AttrTree.TAddr -> AttrTree.VAddr (n_of_hex s)
  | AttrTree.TStr -> AttrTree.VStr (bytes_of_hex s)
  | AttrTree.TBmp | AttrTree.TBlob -> AttrTree.VObj (n_of_hex (if s = "?" then "ffff" else s))
  | _ -> AttrTree.VNone
let show_val = function
  | AttrTree.VNone -> "-"
  | AttrTree.VObj n when hex_of_n n = "ffff" -> "?"      (* an object the driver does not know *)
  | AttrTree.VNum n | AttrTree.VAddr n | AttrTree.VObj n -> hex_of_n n
  | AttrTree.VStr b -> hex_of_bytes b

(* ---- the initial tree ---- *)
let parse_tree (toks : string list) : AttrTree.anode =
  let rest = ref toks in
  let rec node () =
    match !rest with
    | [] -> failwith "tree: unexpected end"
    | t :: tl ->
        rest := tl;
        (match split_on ':' t with
         | [k; ty; fl; v; nk] ->
             let ty = ty_of_char ty in
             let kids = Stdlib.List.init (int_of_string nk) (fun _ -> ()) in
             let kids = Stdlib.List.map (fun () -> node ()) kids in
             AttrTree.ANode (bytes_of_hex k, ty, fl.[0] = '1', fl.[1] = '1', val_of ty v, kids)
         | _ -> failwith ("bad tree token " ^ t)) in
  node ()

(* initial dictionaries by setup variant ("P" prepared, "F" new context, "B<n>" n VMCOREINFO lines) *)
let trees : (string * AttrTree.anode) list ref = ref []
let cur_variant = ref "P"
let is_variant t =
  t = "P" || t = "F" || (String.length t > 1 && (t.[0] = 'B' || t.[0] = 'X' || t.[0] = 'Y' || t.[0] = 'Z') && t.[1] >= '0' && t.[1] <= '9')
let chain_len () = match !cur_variant.[0] with 'Y' -> 2 | 'Z' -> 3 | _ -> 0
let get_tree () =
  try Stdlib.List.assoc !cur_variant !trees
  with Not_found -> failwith ("no TREE line for variant " ^ !cur_variant)
(* a history line may start with the variant *)
let strip_variant (ws : string list) : string list =
  match ws with
  | v :: rest when is_variant v -> cur_variant := v; rest
  | _ -> cur_variant := "P"; ws
let fresh : (string * (string * string) list) list ref = ref []

(* ---- keys ---- *)
let key_of (s : string) : (bool * coq_N list list) option =
  if s = "@" then None else
  let b = bytes_of_hex s in
  match b with
  | c :: t when int_of_n c = 46 -> Some (true, AttrBase.split_on AttrBase.coq_DOT t)
  | _ -> Some (false, AttrBase.split_on AttrBase.coq_DOT b)

let sub_of (s : string) : bool * coq_N list list =
  match key_of s with Some x -> x | None -> failwith "NULL sub key"

let nat s = nat_of_int (int_of_string s)

let parse_op (s : string) : AttrTree.aop =
  let open AttrTree in
  match split_on ':' s with
  | ["S"; c; k; ty; v] -> let ty = ty_of_char ty in OSet (nat c, key_of k, ty, val_of ty v)
  | ["SF"; c; k; ty; v; _] -> let ty = ty_of_char ty in OSet (nat c, key_of k, ty, val_of ty v)
  | ["G"; c; k] -> OGet (nat c, key_of k)
  | ["R"; c; sl; k] -> ORef (nat c, nat sl, key_of k)
  | ["SR"; c; sl2; sl; k] -> let (nf, p) = sub_of k in OSubRef (nat c, nat sl2, nat sl, nf, p)
  | ["RG"; c; sl] -> ORefGet (nat c, nat sl)
  | ["RS"; c; sl; ty; v] -> let ty = ty_of_char ty in ORefSet (nat c, nat sl, ty, val_of ty v)
  | ["SS"; c; sl; k; ty; v] ->
      let ty = ty_of_char ty in let (nf, p) = sub_of k in OSetSub (nat c, nat sl, nf, p, ty, val_of ty v)
  | ["RI"; sl] -> ORefInfo (nat sl)
  | ["I"; c; isl; k] -> OIterStart (nat c, nat isl, key_of k)
  | ["IR"; c; isl; sl] -> OIterStartRef (nat c, nat isl, nat sl)
  | ["IN"; c; isl] -> OIterNext (nat c, nat isl)
  | ["C"; from; x] -> OClone (nat from, x = "1")
  | ["F"; c] -> OFree (nat c)
  | ["IS"; c; isl; ty; v] -> let ty = ty_of_char ty in OIterSet (nat c, nat isl, false, ty, val_of ty v)
  | ["IK"; c; isl; ty; v] -> let ty = ty_of_char ty in OIterSet (nat c, nat isl, true, ty, val_of ty v)
  | ["O"; _] -> OClearVolatile (nat "0")
  | ["O"; _; c] -> OClearVolatile (nat c)
  | _ -> failwith ("bad attr op " ^ s)

let status_of_code (code : string) : AttrBase.status =
  let open AttrBase in
  try Stdlib.List.find (fun st -> int_of_n (status_code st) = int_of_string code)
        [ KDUMP_OK; ERR_SYSTEM; ERR_NOTIMPL; ERR_NODATA; ERR_CORRUPT; ERR_INVALID; ERR_NOKEY; ERR_EOF; ERR_BUSY; ERR_ADDRXLAT ]
  with Not_found -> failwith ("bad status " ^ code)

let path_str (p : coq_N list list) = String.concat "." (Stdlib.List.map hex_of_bytes p)

let show_dump (l : ((coq_N list list * AttrTree.atype) * AttrTree.aval) list) =
  String.concat "," (Stdlib.List.map (fun ((p, ty), v) -> path_str p ^ "=" ^ char_of_ty ty ^ show_val v) l)

let show_out (o : AttrTree.aop) (r : AttrTree.aout) (s : AttrTree.astate) : string =
  let open AttrTree in
  match o, r with
  | OClearVolatile _, AStatus st -> "O" ^ show_status st ^ "{" ^ show_dump (dump_set [] s.base) ^ "}"
  | _, AStatus st -> show_status st
  | _, AValue (st, ty, v) -> show_status st ^ ":" ^ char_of_ty ty ^ ":" ^ show_val v
  | _, AInfo (ty, i) -> char_of_ty ty ^ ":" ^ (if i then "1" else "0")
  | _, AIter (st, k, st2, ty, v) ->
      show_status st ^ ":" ^ (match k with None -> "end" | Some k -> hex_of_bytes k) ^ ":" ^
      show_status st2 ^ ":" ^ char_of_ty ty ^ ":" ^ show_val v
  | _, ACtx c -> "c" ^ string_of_int (int_of_nat c)
  | _, ANoIter -> "NOITER"
  | _, ABad -> "BAD"

(* "6c696e7578.757473" -> components *)
let path_of_str (s : string) : coq_N list list =
  Stdlib.List.map bytes_of_hex (split_on '.' s)

(* "n1f" / "s6162" / "d-" -> (type, value) *)
let tyval_of_str (s : string) =
  let ty = ty_of_char (String.sub s 0 1) in
  (ty, val_of ty (String.sub s 1 (String.length s - 1)))

let run_ops (ops : (string * AttrTree.aop) list) : string list =
  let tree = get_tree () in
  let st = ref (AttrTree.ainit tree) in
  (* chains of clones ("Y": 2, "Z": 3 extra contexts): for keys outside addrxlat every level of
     the chain resolves to the original dictionary, like a clone that shares it *)
  for _ = 1 to chain_len () do
    st := snd (AttrTree.astep (AttrTree.OClone (nat_of_int 0, false)) !st)
  done;
  Stdlib.List.map (fun (src, o) ->
    let (r, s') = match o, split_on ':' src with
      | AttrTree.OSet (c, k, ty, v), ["SF"; _; _; _; _; code] ->
          (* a set whose post-set hook fails with status <code> *)
          AttrTree.astep_hookfail (status_of_code code) c k ty v !st
      | _ -> AttrTree.astep o !st in
    st := s';
    (match o, split_on ':' src with
     | AttrTree.OClearVolatile c, ("O" :: idx :: _) ->
         (* the values the format reads from the new file *)
         let fr = try Stdlib.List.assoc idx !fresh with Not_found -> [] in
         Stdlib.List.iter (fun (p, tv) ->
           if tv.[0] <> 'd' then        (* directories are set by instantiate_path only *)
           let (_, v) = tyval_of_str tv in
           let (_, s2) = AttrTree.astep (AttrTree.ODerive (c, path_of_str p, v)) !st in
           st := s2) fr
     | _ -> ());
    show_out o r !st) ops

let parse_fresh (s : string) =
  if s = "-" then [] else
  Stdlib.List.map (fun e -> match split_on '=' e with
    | [p; v] -> (p, v) | _ -> failwith ("bad fresh entry " ^ e)) (split_on ',' s)

let header (line : string) : string option =
  match words line with
  | "TREE" :: v :: toks ->
      let t = parse_tree toks in
      trees := (v, t) :: Stdlib.List.remove_assoc v !trees;
      (* the hypothesis of C13_executable_spec_init, evaluated on the dictionary the run starts from *)
      if not (AttrTree.uniqb t) then Some "tree-with-duplicate-sibling-keys" else Some "tree"
  | ["FRESH"; idx; d] -> fresh := (idx, parse_fresh d) :: Stdlib.List.remove_assoc idx !fresh; Some "fresh"
  | _ -> None

let run_case (line : string) : string =
  match header line with
  | Some r -> r
  | None -> String.concat " " (run_ops (Stdlib.List.map (fun w -> (w, parse_op w)) (strip_variant (words line))))

(* =====================================================================
   spec mode: "<history> || <implementation's output line>"
   The history is replayed on association-list dictionaries (the dl_ functions of AttrSpec):
   one shared dictionary, plus a private copy of the keys below "addrxlat" for
   every KDUMP_CLONE_XLAT clone. *)
exception Bad of string
let bad fmt = Printf.ksprintf (fun s -> raise (Bad s)) fmt

type view = Shared | Private of int
let s_addrxlat = AttrTree.s_addrxlat

let show_get ((st, ty), v) = show_status st ^ ":" ^ char_of_ty ty ^ ":" ^ show_val v

let find_sub (s : string) (sub : string) : int =
  let n = String.length s and m = String.length sub in
  let rec go i = if i + m > n then raise Not_found
    else if String.sub s i m = sub then i else go (i + 1) in
  go 0

let volatile_key (p : string) =
  (* values that differ from process to process *)
  let pre s = String.length p >= String.length s && String.sub p 0 (String.length s) = s in
  let hx s = String.concat "" (Stdlib.List.map (fun c -> Printf.sprintf "%02x" (Char.code c)) (Stdlib.List.init (String.length s) (String.get s))) in
  pre (hx "cache") || pre (hx "file" ^ "." ^ hx "fd") || pre (hx "file" ^ "." ^ hx "set")
  || pre (hx "file" ^ "." ^ hx "mmap_cache") || pre (hx "file" ^ "." ^ hx "read_cache")
  || pre (hx "file" ^ "." ^ hx "mmap_policy") || pre (hx "file" ^ "." ^ hx "pagemap")
  || pre (hx "memory" ^ "." ^ hx "pagemap")

let spec_history (ops : string list) (outs : string list) : string =
  let tree = get_tree () in
  if Stdlib.List.length ops <> Stdlib.List.length outs then
    bad "implementation produced %d results for %d operations"
      (Stdlib.List.length outs) (Stdlib.List.length ops);
  let shared = ref (AttrSpec.flatten [] tree) in
  let privs : (int, AttrSpec.alist ref) Hashtbl.t = Hashtbl.create 4 in   (* clone -> private keys *)
  let ctxs : (int, view) Hashtbl.t = Hashtbl.create 4 in
  Hashtbl.replace ctxs 0 Shared;
  let nctx = ref 1 in
  for _ = 1 to chain_len () do Hashtbl.replace ctxs !nctx Shared; incr nctx done;
  let refs : (int, view * coq_N list list) Hashtbl.t = Hashtbl.create 8 in
  (* iterator: directory, keys yielded so far, the key it stands on (None: at the end) *)
  let iters : (int, view * coq_N list list * string list ref * string option ref) Hashtbl.t = Hashtbl.create 4 in
  let dict = function Shared -> shared | Private c -> Hashtbl.find privs c in
  let under_ax p = match p with c :: _ -> c = s_addrxlat | [] -> false in
  (* which dictionary does a context see a path in? *)
  let view_of c nf p =
    match Hashtbl.find ctxs c with
    | Private k when under_ax p -> Some (Private k)
    | Private _ when nf -> None                       (* "no fallback": only the clone's own keys *)
    | _ -> Some Shared in
  let xroot = ref false in   (* the last resolution reached the root through a KDUMP_CLONE_XLAT clone *)
  let xrefs : (int, unit) Hashtbl.t = Hashtbl.create 4 in
  let resolve c key =
    xroot := false;
    match key with
    | None ->
        (match Hashtbl.find ctxs c with Private _ -> xroot := true | Shared -> ());
        Some (Shared, [])                             (* the root directory is one for all *)
    | Some (nf, p) ->
        (match view_of c nf p with
         | Some v -> (match AttrSpec.dl_find p !(dict v) with Some _ -> Some (v, p) | None -> None)
         | None -> None) in
  let get (v, p) = AttrSpec.dl_get p !(dict v) in
  let check_set (v, p) ty value =
    let (st, l') = AttrSpec.dl_check_set p ty value !(dict v) in
    dict v := l'; st in
  let expect what exp out = if exp <> out then bad "%s: expected %s, got %s" what exp out in
  let xnote x = if x then " (the root directory reached through a KDUMP_CLONE_XLAT clone)" else "" in
  Stdlib.List.iteri (fun idx (op, out) ->
    let f = split_on ':' op in
    match f with
    | ["S"; c; k; ty; v] ->
        let c = int_of_string c and ty = ty_of_char ty in
        (match resolve c (key_of k) with
         | None -> if out = "0" then bad "%s: set of a key that does not exist succeeded" op
         | Some a -> expect op (show_status (check_set a ty (val_of ty v))) out)
    | ["SF"; c; k; ty; v; code] ->
        (* a set whose post-set hook fails: the dictionary of the set, the status of the hook *)
        let c = int_of_string c and ty = ty_of_char ty in
        (match resolve c (key_of k) with
         | None -> if out = "0" then bad "%s: set of a key that does not exist succeeded" op
         | Some (vw, p) ->
             let (st, l') = AttrSpec.dl_check_set_hookfail (status_of_code code) p ty (val_of ty v) !(dict vw) in
             dict vw := l';
             expect op (show_status st) out)
    | ["G"; c; k] ->
        (match resolve (int_of_string c) (key_of k) with
         | None -> if String.length out > 1 && String.sub out 0 2 = "0:" then bad "%s: a value for a key that does not exist" op
         | Some a -> expect op (show_get (get a)) out)
    | ["R"; c; sl; k] ->
        (match resolve (int_of_string c) (key_of k) with
         | None -> if out = "0" then bad "%s: reference to a key that does not exist" op
         | Some a -> expect op "0" out; Hashtbl.replace refs (int_of_string sl) a;
             if !xroot then Hashtbl.replace xrefs (int_of_string sl) () else Hashtbl.remove xrefs (int_of_string sl))
    | ["SR"; c; sl2; sl; k] ->
        let (_, bp) = Hashtbl.find refs (int_of_string sl) in
        let (nf, sub) = sub_of k in
        (match resolve (int_of_string c) (Some (nf, bp @ sub)) with
         | None -> if out = "0" then bad "%s: sub-reference to a key that does not exist" op
         | Some a -> expect op "0" out; Hashtbl.replace refs (int_of_string sl2) a)
    | ["RG"; _; sl] ->
        expect (op ^ xnote (Hashtbl.mem xrefs (int_of_string sl)))
          (show_get (get (Hashtbl.find refs (int_of_string sl)))) out
    | ["RS"; _; sl; ty; v] ->
        let ty = ty_of_char ty in
        expect op (show_status (check_set (Hashtbl.find refs (int_of_string sl)) ty (val_of ty v))) out
    | ["SS"; c; sl; k; ty; v] ->
        let ty = ty_of_char ty in
        let (_, bp) = Hashtbl.find refs (int_of_string sl) in
        let (nf, sub) = sub_of k in
        (match resolve (int_of_string c) (Some (nf, bp @ sub)) with
         | None -> if out = "0" then bad "%s: set of a sub-key that does not exist succeeded" op
         | Some a -> expect op (show_status (check_set a ty (val_of ty v))) out)
    | ["RI"; sl] ->
        let (v, p) = Hashtbl.find refs (int_of_string sl) in
        (match AttrSpec.dl_find p !(dict v) with
         | Some e -> expect (op ^ xnote (Hashtbl.mem xrefs (int_of_string sl)))
               (char_of_ty e.AttrSpec.e_ty ^ ":" ^ (if e.AttrSpec.e_set then "1" else "0")) out
         | None -> ())
    | ("I" :: c :: isl :: _) | ("IR" :: c :: isl :: _) ->
        let a = match f with
          | ["I"; _; _; k] -> resolve (int_of_string c) (key_of k)
          | ["IR"; _; _; sl] -> xroot := Hashtbl.mem xrefs (int_of_string sl); Some (Hashtbl.find refs (int_of_string sl))
          | _ -> bad "bad op %s" op in
        let xr = !xroot in
        Hashtbl.remove iters (int_of_string isl);
        (match a with
         | None -> if String.length out > 1 && String.sub out 0 2 = "0:" then bad "%s: iteration over a key that does not exist" op
         | Some (v, p) ->
             (match AttrSpec.dl_find p !(dict v) with
              | Some e when e.AttrSpec.e_set && e.AttrSpec.e_ty = AttrTree.TDir ->
                  (match split_on ':' out with
                   | ["0"; key; st2; ty; value] ->
                       let cur = if key = "end" then None else Some key in
                       Hashtbl.replace iters (int_of_string isl) (v, p, ref (match cur with Some k -> [k] | None -> []), ref cur);
                       (* the first child with a value, in the order of the directory *)
                       (match v with
                        | Shared ->
                            let want = match AttrSpec.dl_first (AttrSpec.dl_kids p !(dict v)) with
                              | Some k -> hex_of_bytes k | None -> "end" in
                            if want <> key then bad "%s: the iteration starts at %s, the first child with a value is %s" op key want
                        | Private _ ->
                            if key = "end" && AttrSpec.dl_children p !(dict v) <> [] then
                              bad "%s: the directory has set children but the iteration is empty" op);
                       if key <> "end" then
                         expect (op ^ " (value at the iterator position)")
                           (show_get (get (v, p @ [bytes_of_hex key]))) (st2 ^ ":" ^ ty ^ ":" ^ value)
                   | _ -> bad "%s: a set directory cannot be iterated (%s)%s" op out (xnote xr))
              | _ -> if String.length out > 1 && String.sub out 0 2 = "0:" then
                    bad "%s: iteration started on something that is not a set directory" op))
    | ["IN"; _; isl] ->
        (match Hashtbl.find_opt iters (int_of_string isl) with
         | None -> ()
         | Some (v, p, seen, cur) ->
             (match !cur with
              | None -> if String.length out > 1 && String.sub out 0 2 = "0:" then bad "%s: a step beyond the end succeeded" op
              | Some ck ->
                  (* the next child with a value after the current one, whatever happened to the current one *)
                  let kids = AttrSpec.dl_kids p !(dict v) in
                  (match split_on ':' out with
                   | ["0"; key; st2; ty; value] ->
                       (match v with
                        | Shared ->
                            let want = match AttrSpec.dl_next_from (bytes_of_hex ck) kids with
                              | Some k -> hex_of_bytes k | None -> "end" in
                            if want <> key then
                              bad "%s: after %s the iteration over %s yields %s; the next child with a value is %s"
                                op ck (path_str p) key want
                        | Private _ ->
                            if key <> "end" && not (Stdlib.List.exists (fun (k, st) -> st && hex_of_bytes k = key) kids) then
                              bad "%s: the iteration yields %s, which has no value" op key);
                       if key <> "end" then begin
                         if Stdlib.List.mem key !seen then bad "iteration over %s yielded %s twice" (path_str p) key;
                         seen := key :: !seen;
                         expect (op ^ " (value at the iterator position)")
                           (show_get (get (v, p @ [bytes_of_hex key]))) (st2 ^ ":" ^ ty ^ ":" ^ value)
                       end;
                       cur := (if key = "end" then None else Some key)
                   | _ ->
                       bad "%s: the iteration over %s stopped with %s after %s although the end was not reached"
                         op (path_str p) out ck)))
    | ["IS"; c; isl; ty; v] | ["IK"; c; isl; ty; v] ->
        ignore c;
        (match Hashtbl.find_opt iters (int_of_string isl) with
         | Some (vw, p, _, cur) ->
             (match !cur with
              | Some ck ->
                  let ty = ty_of_char ty in
                  expect op (show_status (check_set (vw, p @ [bytes_of_hex ck]) ty (val_of ty v))) out
              | None -> ())
         | None -> ())
    | ["C"; from; x] ->
        let c = !nctx in incr nctx;
        expect op ("c" ^ string_of_int c) out;
        if x = "1" then begin
          (* a private copy of the keys below addrxlat, as the cloned context sees them *)
          let src = match Hashtbl.find ctxs (int_of_string from) with
            | Private k -> !(Hashtbl.find privs k) | Shared -> !shared in
          let copy = Stdlib.List.filter (fun (p, _) -> under_ax p) src in
          (* an unset key is copied as unset and not persistent *)
          let copy = Stdlib.List.map (fun (p, e) ->
            if e.AttrSpec.e_set then (p, e)
            else (p, { e with AttrSpec.e_persist = false; AttrSpec.e_val = AttrTree.VNone })) copy in
          Hashtbl.replace privs c (ref copy);
          Hashtbl.replace ctxs c (Private c)
        end else
          Hashtbl.replace ctxs c (Hashtbl.find ctxs (int_of_string from))
    | ["F"; c] -> Hashtbl.remove ctxs (int_of_string c)
    | ("O" :: i :: octx) ->
        let via = match octx with [c] -> int_of_string c | _ -> 0 in
        (match Hashtbl.find ctxs via with
         | Private k -> let d = Hashtbl.find privs k in d := AttrSpec.dl_clear_volatile !d
         | Shared -> ());
        (* re-open: values of the new file, plus what the application had set *)
        let fr = try Stdlib.List.assoc i !fresh with Not_found -> bad "no FRESH line for file %s" i in
        let after = AttrSpec.dl_clear_volatile !shared in
        let after = Stdlib.List.fold_left (fun l (p, tv) ->
          if tv.[0] = 'd' then l else
          let (_, v) = tyval_of_str tv in AttrSpec.dl_derive (path_of_str p) v l) after fr in
        shared := after;
        let (st, dump) =
          try let lb = String.index out '{' in
              (String.sub out 1 (lb - 1), String.sub out (lb + 1) (String.length out - lb - 2))
          with Not_found -> bad "%s: no dump (%s)" op out in
        if st <> "0" then bad "%s: re-open failed with status %s" op st;
        let got = Stdlib.List.filter (fun (p, _) -> not (volatile_key p)) (parse_fresh dump) in
        (* the listing walks down from the root through directories that have a value *)
        let rec prefixes p = match Stdlib.List.rev p with
          | [] -> [] | _ :: r -> let q = Stdlib.List.rev r in if q = [] then [] else q :: prefixes q in
        let visible p = Stdlib.List.for_all (fun q ->
          match AttrSpec.dl_find q after with Some e -> e.AttrSpec.e_set | None -> false) (prefixes p) in
        let kept = Stdlib.List.filter_map (fun (p, e) ->
          if p <> [] && e.AttrSpec.e_set && visible p
          then Some (path_str p, char_of_ty e.AttrSpec.e_ty ^ show_val e.AttrSpec.e_val)
          else None) after in
        let exp = Stdlib.List.filter (fun (p, _) -> not (volatile_key p))
            (fr @ Stdlib.List.filter (fun (p, _) -> not (Stdlib.List.mem_assoc p fr)) kept) in
        let norm l = Stdlib.List.sort_uniq compare l in
        let g = norm got and e = norm exp in
        if g <> e then begin
          let miss = Stdlib.List.filter (fun x -> not (Stdlib.List.mem x g)) e
          and extra = Stdlib.List.filter (fun x -> not (Stdlib.List.mem x e)) g in
          let sh = function (p, v) :: _ -> p ^ "=" ^ v | [] -> "-" in
          bad "after re-open the attributes are not (values of the new file) + (values set by the application): missing %s, unexpected %s" (sh miss) (sh extra)
        end;
        ignore idx
    | _ -> bad "bad op %s" op) (Stdlib.List.combine ops outs);
  "ok"

let spec_case (line : string) : string =
  match header line with
  | Some r -> r
  | None ->
      let i = try find_sub line " || " with Not_found -> failwith "bad spec line" in
      let case = String.sub line 0 i
      and out = String.sub line (i + 4) (String.length line - i - 4) in
      (try spec_history (strip_variant (words case)) (words out) with
       | Bad s -> s
       | Not_found -> "ok")     (* a malformed history (undefined slot or context): nothing to judge *)

(* ---- engine "attr-chain": the dictionaries behind clones as a list (Attr/AttrChain.v) ----
   line:  CHAIN <op> ... || I:<path>,.. K<ctx>:<d>><d>.. D<k>:<path>,.. [M:<path>]
   ops:   X:<ctx> clone with KDUMP_CLONE_XLAT, N:<ctx> clone sharing the dictionary,
          V:<ctx>:<j>:<n> set linux.vmcoreinfo.raw to the lines K<j>..K<j+n-1> through <ctx>,
          S:<ctx>:<n> set file.set.number through <ctx>, F:<ctx> free the context.
   The driver reports white-box: the paths in dictionary 0's hash table of a new context (I),
   and at the end the fallback chain of every live context (K), the paths in the hash table of
   every reachable dictionary (D) and every attribute whose parent is in another table (M). *)
let cpath_of_str (s : string) : coq_N list list =
  if s = "-" then [] else Stdlib.List.map bytes_of_hex (split_on '.' s)
let cpath_str (p : coq_N list list) : string =
  if p = [] then "-" else String.concat "." (Stdlib.List.map hex_of_bytes p)
let bytes_of_string (s : string) : coq_N list =
  Stdlib.List.init (String.length s) (fun i -> n_of_int (Char.code s.[i]))

(* the keys whose values the CHAIN histories set, clear and compare through every level
   (same order as chain_keys[] in harness/attr_drv.c) *)
let chain_watched = [ "addrxlat.force.phys_base"; "addrxlat.force.page_shift"; "addrxlat.force.virt_bits";
  "addrxlat.force.rootpgt.addr"; "addrxlat.default.phys_base"; "addrxlat.default.phys_bits";
  "addrxlat.default.rootpgt.as"; "max_pfn"; "xen.phys_start"; "xen.p2m_mfn"; "file.zero_excluded" ]

let chain_history (ops : string list) (outs : string list) : string =
  let bad fmt = Printf.ksprintf (fun s -> raise (Bad s)) fmt in
  let tok pre = Stdlib.List.filter_map (fun t ->
    let n = String.length pre in
    if String.length t >= n && String.sub t 0 n = pre then Some (String.sub t n (String.length t - n)) else None) outs in
  let init = match tok "I:" with
    | [l] -> Stdlib.List.map cpath_of_str (split_on ',' l)
    | _ -> bad "no initial table in the driver's output" in
  let vs = ref { AttrChainVal.cs =
      { AttrChain.dicts = [ { AttrChain.d_alive = true; d_fallback = None; d_refs = nat_of_int 1 } ];
        attrs = Stdlib.List.map (fun p -> { AttrChain.a_path = p; a_table = Datatypes.O; a_tree = Datatypes.O }) init };
      vals = (fun _ _ -> None) } in
  let s = ref !vs.AttrChainVal.cs in
  let sync () = s := !vs.AttrChainVal.cs in
  let ctxs = ref [ Some 0 ] in
  let nfiles = ref 0 in
  let b = bytes_of_string in
  let xl = b "addrxlat" in
  let singles = [ []; [xl]; [xl; b "ostype"] ] and roots = [ [xl; b "default"]; [xl; b "force"] ] in
  let lines = [ b "linux"; b "vmcoreinfo"; b "lines" ] in
  let ctx i = try Stdlib.List.nth !ctxs i with _ -> None in
  let watched = Stdlib.List.map (fun k -> Stdlib.List.map b (split_on '.' k)) chain_watched in
  let wf op = sync ();
    if not (AttrChainVal.dwfb !s) then bad "%s: a fallback pointer of the model does not lead to an older dictionary (dwfb)" op;
    if not (AttrChain.invb !s) then bad "%s: the model state is not well-formed (invb)" op in
  wf "start";
  Stdlib.List.iter (fun op ->
    (match split_on ':' op with
     | ["X"; i] ->
         (match ctx (int_of_string i) with
          | Some d ->
              let n = Stdlib.List.length !s.AttrChain.dicts in
              let priv = AttrChain.clone_priv !s (nat_of_int d) singles roots in
              vs := AttrChainVal.vclone_xlat !vs (nat_of_int d) priv;
              ctxs := !ctxs @ [ Some n ]
          | None -> ctxs := !ctxs @ [ None ])
     | ["N"; i] ->
         (match ctx (int_of_string i) with
          | Some d -> vs := AttrChainVal.vclone_shared !vs (nat_of_int d); ctxs := !ctxs @ [ Some d ]
          | None -> ctxs := !ctxs @ [ None ])
     | ["V"; i; j; n] ->
         (match ctx (int_of_string i) with
          | Some d ->
              let d = nat_of_int d in
              vs := AttrChainVal.vremove_below !vs d lines true;
              for k = int_of_string j to int_of_string j + int_of_string n - 1 do
                let p = lines @ [ b (Printf.sprintf "K%d" k) ] in
                vs := AttrChainVal.vcreate_path !vs d p;
                vs := AttrChainVal.vset !vs d p (Some (n_of_int k))      (* the line K<k>=v<k> *)
              done
          | None -> ())
     | ["S"; i; n] ->
         (match ctx (int_of_string i) with
          | Some d ->
              let d = nat_of_int d and n = int_of_string n in
              let set k = [ b "file"; b "set"; b (string_of_int k) ] in
              for k = !nfiles to n - 1 do
                vs := AttrChainVal.vcreate_path !vs d (set k);
                vs := AttrChainVal.vcreate_path !vs d (set k @ [ b "fd" ]);
                vs := AttrChainVal.vcreate_path !vs d (set k @ [ b "name" ])
              done;
              for k = n to !nfiles - 1 do vs := AttrChainVal.vremove_below !vs d (set k) false done;
              nfiles := n
          | None -> ())
     | ["F"; i] ->
         let i = int_of_string i in
         (match ctx i with
          | Some d ->
              vs := AttrChainVal.vrelease (nat_of_int (Stdlib.List.length !s.AttrChain.dicts + 1)) !vs (nat_of_int d);
              ctxs := Stdlib.List.mapi (fun j c -> if j = i then None else c) !ctxs
          | None -> ())
     | ["A"; i; k; v] ->          (* set watched key k to the number / address v through level i *)
         (match ctx (int_of_string i) with
          | Some d -> vs := AttrChainVal.vset !vs (nat_of_int d) (Stdlib.List.nth watched (int_of_string k)) (Some (n_of_int (int_of_string v)))
          | None -> ())
     | ["U"; i; k] ->             (* clear it (NIL) *)
         (match ctx (int_of_string i) with
          | Some d -> vs := AttrChainVal.vset !vs (nat_of_int d) (Stdlib.List.nth watched (int_of_string k)) None
          | None -> ())
     | _ -> bad "bad op %s" op);
    wf op) ops;
  sync ();
  (* the chains of the live contexts *)
  Stdlib.List.iteri (fun i c ->
    let got = tok (Printf.sprintf "K%d:" i) in
    match c, got with
    | None, [] -> ()
    | None, _ -> bad "context %d is reported alive; the model has freed it" i
    | Some _, [] -> bad "context %d is not reported; the model has it alive" i
    | Some d, g :: _ ->
        let want = String.concat ">" (Stdlib.List.map (fun k -> string_of_int (int_of_nat k))
                                        (AttrChain.chain !s (nat_of_int d))) in
        if want <> g then bad "fallback chain of context %d: the library has %s, the model %s" i g want;
        (* the values that this level shows *)
        let show p = match AttrChainVal.vget !vs (nat_of_int d) p with Some n -> string_of_int (int_of_n n) | None -> "-" in
        let cmp tag names paths =
          match tok (Printf.sprintf "%s%d:" tag i) with
          | [] -> bad "no %s values reported for context %d" tag i
          | gl :: _ ->
              let gv = split_on ',' gl in
              if Stdlib.List.length gv <> Stdlib.List.length paths then bad "%s%d: wrong number of values" tag i;
              Stdlib.List.iter2 (fun (nm, p) g ->
                let w = show p in
                if w <> g then bad "value of %s through context %d (dictionary %d): the library shows %s, the model %s" nm i d g w)
                (Stdlib.List.combine names paths) gv in
        cmp "G" chain_watched watched;
        let ks = Stdlib.List.init 53 (fun k -> Printf.sprintf "K%d" k) in
        cmp "L" (Stdlib.List.map (fun k -> "linux.vmcoreinfo.lines." ^ k) ks) (Stdlib.List.map (fun k -> lines @ [ b k ]) ks)) !ctxs;
  (* the live dictionaries and their hash tables *)
  let alive = Stdlib.List.map int_of_nat (AttrChain.alive_dicts !s) in
  let reported = Stdlib.List.filter_map (fun t ->
    if String.length t > 1 && t.[0] = 'D' then
      (match split_on ':' t with [k; l] -> Some (int_of_string (String.sub k 1 (String.length k - 1)), l) | _ -> None)
    else None) outs in
  let rk = Stdlib.List.sort compare (Stdlib.List.map fst reported) in
  if rk <> alive then
    bad "live dictionaries: the library has [%s], the model (reference counts) [%s]"
      (String.concat ";" (Stdlib.List.map string_of_int rk)) (String.concat ";" (Stdlib.List.map string_of_int alive));
  Stdlib.List.iter (fun (k, l) ->
    let got = Stdlib.List.sort compare (if l = "" then [] else split_on ',' l) in
    let want = Stdlib.List.sort compare (Stdlib.List.map cpath_str (AttrChain.table !s (nat_of_int k))) in
    if got <> want then begin
      let miss = Stdlib.List.filter (fun x -> not (Stdlib.List.mem x got)) want
      and extra = Stdlib.List.filter (fun x -> not (Stdlib.List.mem x want)) got in
      let sh = function x :: _ -> x | [] -> "-" in
      bad "hash table of dictionary %d: %d entries in the library, %d in the model; only in the model: %s, only in the library: %s"
        k (Stdlib.List.length got) (Stdlib.List.length want) (sh miss) (sh extra)
    end) reported;
  (match tok "M:" with
   | [] -> ()
   | m :: _ -> bad "attribute %s is hashed in another dictionary than its parent directory (dangles when that one is freed)" m);
  if AttrChain.misplaced !s <> [] then bad "the model has a misplaced attribute";
  "ok"

let chain_case (line : string) : string =
  let i = try find_sub line " || " with Not_found -> failwith "bad chain line" in
  let case = String.sub line 0 i
  and out = String.sub line (i + 4) (String.length line - i - 4) in
  let ops = match words case with "CHAIN" :: r -> r | r -> r in
  (try chain_history ops (words out) with Bad s -> s)

let engines = [ "attr", run_case; "attr-spec", spec_case; "attr-chain", chain_case ]
