(* driver <engine> <casefile>: one output line per input line *)
let engines : (string * (string -> string)) list = [
  "map", Eng_map.run_case;
  "map-spec", Eng_map.spec_case;
]

let () =
  let eng = Sys.argv.(1) and path = Sys.argv.(2) in
  let f = try Stdlib.List.assoc eng engines with Not_found -> failwith ("unknown engine " ^ eng) in
  Stdlib.List.iter (fun l ->
    let r = try f l with e -> "EXC " ^ Printexc.to_string e in
    print_string r; print_newline ()) (Util.read_lines path)
