(* engine "flat" (C11): one case per line.

   F <filespec> | <fail> | <oracle> | <op> <op> ...
       filespec  comma separated: z<hexlen> (zero bytes), x<hexbytes>
       fail      "-" or <lo>:<hi>:<status>  (every cache read touching a byte of
                 the stream in [lo, hi) fails with that status)
       oracle    "-" or a string of 0/1: answers of the allocator during init
       op        P:<pos>:<len>            flatmap_pread
                 C:<pos>:<len>:<0|1>      flatmap_get_chunk, malloc answer
   output: open=<...> map=<endoff:meth:off,...> then per op
       P<st>=<hex>[r<pos>:<len>,...]    C<st>=<hex>:l<owned>[c<pos>:<len> | r...]

   S <start>:<end>:<fidx>,... | <pfn> ...
   output: order=<fidx,...> <pfn>=<fidx|-> ...

   Parsing and printing only. *)
open Util
open BinNums
open ByteSeq
open FlatModel

let hexbyte s i = hexval s.[i] * 16 + hexval s.[i + 1]

let bytes_of_hex (s : string) : coq_N list =
  Stdlib.List.init (String.length s / 2) (fun i -> n_of_int (hexbyte s (2 * i)))

let parse_filespec (s : string) : bytes =
  Stdlib.List.concat (Stdlib.List.map (fun tok ->
    if tok = "" then [] else
    let body = String.sub tok 1 (String.length tok - 1) in
    match tok.[0] with
    | 'z' -> Stdlib.List.init (int_of_string ("0x" ^ body)) (fun _ -> N0)
    | 'x' -> bytes_of_hex body
    | _ -> failwith ("bad filespec token " ^ tok)) (split_on ',' s))

let hex_of_bytes (b : bytes) : string =
  let buf = Buffer.create 64 in
  Stdlib.List.iter (fun x -> Buffer.add_string buf (Printf.sprintf "%02x" (int_of_n x))) b;
  Buffer.contents buf

let show_trace tag tr =
  "[" ^ String.concat "," (Stdlib.List.map (fun (p, n) -> tag ^ hex_of_z p ^ ":" ^ hex_of_n n) tr) ^ "]"

let show_pres tag = function
  | POk b -> tag ^ "0=" ^ hex_of_bytes b
  | PErr st -> tag ^ string_of_int (int_of_n st) ^ "="
  | PUB why -> tag ^ "ub" ^ string_of_int (int_of_n why) ^ "="

let show_map (fm : fmap) : string =
  String.concat "," (Stdlib.List.map (fun ((e, m), o) ->
    hex_of_n e ^ ":" ^ hex_of_z m ^ ":" ^ (match o with None -> "-" | Some d -> hex_of_z d))
    (show_offs fm))

let flat_case (rest : string) : string =
  match Stdlib.List.map String.trim (split_on '|' rest) with
  | [fspec; fail; oracle; ops] ->
      let data = parse_filespec fspec in
      let failpos, failst = match fail with
        | "-" -> None, N0
        | s -> (match split_on ':' s with
                | [lo; hi; st] -> Some (z_of_hex lo, z_of_hex hi), n_of_hex st
                | _ -> failwith "bad fail spec") in
      let f = { pf_bytes = data; pf_fail = failpos; pf_failst = failst } in
      let rd = file_rd f in
      let orc = if oracle = "-" then [] else
        Stdlib.List.init (String.length oracle) (fun i -> oracle.[i] = '1') in
      let fuel = init_fuel (n_of_int (Stdlib.List.length data)) in
      let opened = flatmap_init_file rd fuel orc in
      let hdr, fmo, usable = match opened with
        | OpenPlain -> "open=plain map=", None, true
        | OpenErr st -> "open=err" ^ string_of_int (int_of_n st) ^ " map=", None, false
        | OpenFlat InitNoMap -> "open=err1 map=", None, false   (* KDUMP_ERR_SYSTEM, map pointer NULL *)
        | OpenFlat (InitUB why) -> "open=ub" ^ string_of_int (int_of_n why) ^ " map=", None, false
        | OpenFlat InitFuel -> "open=fuel map=", None, false
        | OpenFlat (InitDone (st, fm)) ->
            "open=flat" ^ string_of_int (int_of_n st) ^ " map=" ^ show_map fm, Some fm,
            int_of_n st = 0 in
      if not usable then hdr else
      let do_op (s : string) : string =
        match split_on ':' s with
        | ["P"; p; l] ->
            let pos = z_of_hex p and len = n_of_hex l in
            let r = flatmap_pread rd fmo pos len in
            let tr = match fmo with
              | None -> [ (pos, len) ]
              | Some fm -> trace_pieces rd (pread_plan fm pos len) in
            show_pres "P" r ^ show_trace "r" tr
        | ["C"; p; l; ok] ->
            let pos = z_of_hex p and len = n_of_hex l and mok = (ok = "1") in
            let (r, live) = flatmap_get_chunk rd rd fmo pos len mok in
            let tr = match fmo with
              | None -> show_trace "c" [ (pos, len) ]
              | Some fm ->
                  (match chunk_plan_of fm pos len with
                   | CDirect (q, n) -> show_trace "c" [ (q, n) ]
                   | CCopy ps -> if mok then show_trace "r" (trace_pieces rd ps) else "[]"
                   | CBad _ -> "[]") in
            show_pres "C" r ^ ":l" ^ string_of_int (int_of_n live) ^ tr
        | _ -> failwith ("bad op " ^ s) in
      String.concat " " (hdr :: Stdlib.List.map do_op (words ops))
  | _ -> failwith "bad F case"

let parse_files (s : string) : SplitModel.pfmap list =
  Stdlib.List.map (fun t -> match split_on ':' t with
    | [a; b; c] -> { SplitModel.start_pfn = n_of_hex a; end_pfn = n_of_hex b; fidx = n_of_hex c }
    | _ -> failwith "bad window") (Stdlib.List.filter (fun x -> x <> "") (split_on ',' s))

let split_case (rest : string) : string =
  match Stdlib.List.map String.trim (split_on '|' rest) with
  | [files; probes] ->
      let fl = parse_files files in
      let order = String.concat "," (Stdlib.List.map (fun m -> hex_of_n m.SplitModel.fidx)
                                       (SplitModel.sort_pfn_file_maps fl)) in
      let ans = Stdlib.List.map (fun p ->
        let pfn = n_of_hex p in
        p ^ "=" ^ (match SplitModel.owner fl pfn with
                   | None -> "-" | Some m -> hex_of_n m.SplitModel.fidx)) (words probes) in
      String.concat " " (("order=" ^ order) :: ans)
  | _ -> failwith "bad S case"

(* D <data_pos>:<data_len>:<fidx>,... | <pos> ...     the extent walk of sadump_read_page
   output: <pos>=<fidx>@<filepos> | <pos>=nodata | <pos>=ub<why> *)
let parse_extents (s : string) : DiskSetModel.extent list =
  Stdlib.List.map (fun t -> match split_on ':' t with
    | [a; b; c] -> { DiskSetModel.x_pos = z_of_hex a; x_len = z_of_hex b; x_fidx = n_of_hex c; x_seen = true }
    | _ -> failwith "bad extent") (Stdlib.List.filter (fun x -> x <> "") (split_on ',' s))

let diskset_case (rest : string) : string =
  match Stdlib.List.map String.trim (split_on '|' rest) with
  | [exts; probes] ->
      let el = parse_extents exts in
      String.concat " " (Stdlib.List.map (fun p ->
        p ^ "=" ^ (match DiskSetModel.walk el (z_of_hex p) with
                   | DiskSetModel.WAt (f, fp) -> hex_of_n f ^ "@" ^ hex_of_z fp
                   | DiskSetModel.WNoData -> "nodata"
                   | DiskSetModel.WUB why -> "ub" ^ string_of_int (int_of_n why))) (words probes))
  | _ -> failwith "bad D case"

(* H <num>:<vol>:<disks>:<sys>:<set>:<time>:<tab>.<tab>... ...   the headers of the files of a SADUMP
   disk set in the order passed (ids as small numbers); output: open=<status of sadump_probe> *)
let hdr_case (rest : string) : string =
  let hs = Stdlib.List.map (fun t -> match split_on ':' t with
    | [num; vol; disks; sys; set; time; tab] ->
        { DiskSetModel.h_num = n_of_hex num; h_pos = BinNums.Z0; h_len = BinNums.Z0;
          h_bs = n_of_hex "1000"; h_sys = n_of_hex sys; h_set = n_of_hex set; h_time = n_of_hex time;
          h_vol = n_of_hex vol; h_disks = n_of_hex disks;
          h_table = Stdlib.List.map n_of_hex (Stdlib.List.filter (fun x -> x <> "") (split_on '.' tab)) }
    | _ -> failwith "bad header") (words rest) in
  match DiskSetModel.probe_set false hs with
  | Datatypes.Coq_inl _ -> "open=0"
  | Datatypes.Coq_inr st -> "open=" ^ string_of_int (int_of_n st)

let run_case (line : string) : string =
  let n = String.length line in
  if n < 2 then failwith "empty case" else
  let rest = String.sub line 2 (n - 2) in
  match line.[0] with
  | 'F' -> flat_case rest
  | 'S' -> split_case rest
  | 'D' -> diskset_case rest
  | 'H' -> hdr_case rest
  | _ -> failwith "bad case kind"

(* Spec judge.
   R <recs> | <pos>:<len>:<st>:<hex> ...   reads of the implementation against [rearrange]
   E <recs> | <filespec>                   the stream is [encode recs]
   L <filespec> | <pos>:<len>:<st>:<hex>   reads against the plain file (zero past its end)
   S <files> | <pfn>=<fidx|-> ...          owners against [spec_owner] (well-formed sets)
   recs: <pos>:<hexdata>,...                                                   *)
let parse_recs (s : string) : FlatSpec.coq_rec list =
  Stdlib.List.map (fun t -> match split_on ':' t with
    | [p; d] -> { FlatSpec.r_pos = n_of_hex p; r_data = bytes_of_hex d }
    | _ -> failwith "bad record") (Stdlib.List.filter (fun x -> x <> "") (split_on ',' s))

let judge_reads (f : coq_N -> coq_N) (reads : string) : string =
  let bad = Stdlib.List.filter_map (fun t -> match split_on ':' t with
    | [p; l; st; hex] ->
        if st <> "0" then Some ("read at " ^ p ^ " len " ^ l ^ " returned status " ^ st)
        else
          let want = hex_of_bytes (FlatSpec.slice f (n_of_hex p) (n_of_hex l)) in
          if want = hex then None
          else Some ("read at " ^ p ^ " len " ^ l ^ " returned " ^ hex ^ " expected " ^ want)
    | _ -> failwith "bad read") (words reads) in
  match bad with [] -> "ok" | b :: _ -> b

let spec_case (line : string) : string =
  let n = String.length line in
  let rest = String.sub line 2 (n - 2) in
  match line.[0], Stdlib.List.map String.trim (split_on '|' rest) with
  | 'R', [recs; reads] -> judge_reads (FlatSpec.rearrange (parse_recs recs)) reads
  | 'L', [fspec; reads] -> judge_reads (FlatSpec.plain_file (parse_filespec fspec)) reads
  | 'E', [recs; fspec] ->
      if FlatSpec.encode (parse_recs recs) = parse_filespec fspec then "ok"
      else "stream differs from encode(records)"
  | 'S', [files; answers] ->
      let fl = parse_files files in
      if not (SplitSpec.wf_setb fl) then "ok" else
      let bad = Stdlib.List.filter_map (fun t -> match split_on '=' t with
        | [p; a] ->
            let want = match SplitSpec.spec_owner fl (n_of_hex p) with
              | None -> "-" | Some m -> hex_of_n m.SplitModel.fidx in
            if want = a then None else Some ("pfn " ^ p ^ " served from " ^ a ^ " expected " ^ want)
        | _ -> failwith "bad answer") (words answers) in
      (match bad with [] -> "ok" | b :: _ -> b)
  | 'D', [exts; answers] ->
      (* the implementation's answers against [loc_spec] on the extent lengths *)
      let el = parse_extents exts in
      let lens = Stdlib.List.map (fun e -> e.DiskSetModel.x_len) el in
      let bad = Stdlib.List.filter_map (fun t -> match split_on '=' t with
        | [p; a] ->
            let want = match DiskSetSpec.loc_spec lens (z_of_hex p) with
              | None -> "nodata"
              | Some (k, off) ->
                  let e = Stdlib.List.nth el (int_of_nat k) in
                  hex_of_n e.DiskSetModel.x_fidx ^ "@" ^ hex_of_z (BinInt.Z.add off e.DiskSetModel.x_pos) in
            if want = a then None else Some ("set position " ^ p ^ " resolved to " ^ a ^ " expected " ^ want)
        | _ -> failwith "bad answer") (words answers) in
      (match bad with [] -> "ok" | b :: _ -> b)
  | _ -> failwith "bad spec line"

let engines = [ "flat", run_case; "flat-spec", spec_case ]
