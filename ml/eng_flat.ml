let engines = []
