(* engine "cb" (C17): ops as for harness/cb_drv.c; one token per I op: "<own>:<seen>".
   The model is polymorphic in private data / arguments / results: here priv = tag (int,
   -1 = NULL, 0 = the context itself), result = (layer that ran, tag it saw). *)
open Util
open CbModel

let hook_of_int = function
  | 0 -> HGetPage | 1 -> HReadCaps | 2 -> HRegValue | 3 -> HSymValue
  | 4 -> HSymSizeof | 5 -> HSymOffsetof | 6 -> HNumValue
  | _ -> failwith "bad hook"

let pinned = (Sys.getenv_opt "VERIF_C17_PINNED" = Some "1")

(* the context's own record: every hook implemented (def_*_cb), priv = the context *)
let base : (int, unit, int * int) layer =
  { l_priv = 0; l_hook = (fun _ -> Some (fun p () -> (0, p))) }

let position ids k =
  let rec go i = function [] -> None | x :: t -> if x = k then Some i else go (i + 1) t in
  go 0 ids

let run_ops (line : string) (answer : (int, unit, int * int) stack -> hook -> string) : string =
  let stack = ref [base] and ids = ref [0] and next = ref 0 and out = ref [] in
  Stdlib.List.iter (fun tok ->
    let rest = String.sub tok 1 (String.length tok - 1) in
    match tok.[0] with
    | '+' -> incr next; stack := add_cb (-1) !stack; ids := !next :: !ids
    | 'P' -> let k = int_of_string rest in
        (match position !ids k with
         | Some i -> stack := set_priv (nat_of_int i) k !stack | None -> ())
    | 'O' -> (match split_on ':' rest with
        | [k; h] -> let k = int_of_string k in
            (match position !ids k with
             | Some i -> stack := set_hook (nat_of_int i) (hook_of_int (int_of_string h))
                                   (fun p () -> (k, p)) !stack
             | None -> ())
        | _ -> failwith "bad O")
    | '-' -> let k = int_of_string rest in
        (match position !ids k with
         | Some i -> stack := del_cb (nat_of_int i) !stack;
                     ids := Stdlib.List.filter (fun x -> x <> k) !ids
         | None -> ())
    | 'I' -> out := answer !stack (hook_of_int (int_of_string rest)) :: !out
    | _ -> failwith ("bad op " ^ tok)) (words line);
  String.concat " " (Stdlib.List.rev !out)

let show (own, seen) = Printf.sprintf "%d:%d" own seen

let run_case (line : string) : string =
  if line <> "" && (line.[0] = 'K' || line.[0] = 'L') then "same" else
  if line = "SITES" then
    String.concat " " (Stdlib.List.map (fun (h, sa) ->
      (match h with HGetPage -> "get_page" | HReadCaps -> "read_caps" | HRegValue -> "reg_value"
       | HSymValue -> "sym_value" | HSymSizeof -> "sym_sizeof" | HSymOffsetof -> "sym_offsetof"
       | HNumValue -> "num_value") ^ ":" ^ (match sa with PassSame -> "same" | PassOther _ -> "other"))
      library_sites) else
  run_ops line (fun stack h ->
    match invoke (not pinned) stack h () (nat_of_int 64) with
    | Done r -> show r
    | NullDeref -> "NULL-DEREF"
    | OutOfFuel -> "DIVERGES")

(* what the specification demands for every I op of the line *)
let spec_case (line : string) : string =
  if line <> "" && (line.[0] = 'K' || line.[0] = 'L' || line.[0] = 'S') then "same" else
  run_ops line (fun stack h ->
    match CbSpec.invoke_spec stack h () with
    | Some r -> show r
    | None -> "NO-IMPLEMENTATION")

let engines = [ "cb", run_case; "cb-spec", spec_case ]
