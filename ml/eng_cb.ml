(* engine "cb" (C17): ops as for harness/cb_drv.c; one token per I op: "<own>:<seen>".
   The model is polymorphic in private data / arguments / results: here priv = tag (int,
   -1 = NULL, 0 = the context itself), result = (layer that ran, tag it saw). *)
open Util
open CbModel

let hook_of_int = function
  | 0 -> HGetPage | 1 -> HReadCaps | 2 -> HRegValue | 3 -> HSymValue
  | 4 -> HSymSizeof | 5 -> HSymOffsetof | 6 -> HNumValue
  | _ -> failwith "bad hook"

let pinned = (Sys.getenv_opt "VERIF_C17_PINNED" = Some "1")

(* the context's own record: every hook implemented (def_*_cb), priv = the context *)
let base : (int, unit, int * int) layer =
  { l_priv = 0; l_hook = (fun _ -> Some (fun p () -> (0, p))) }

let position ids k =
  let rec go i = function [] -> None | x :: t -> if x = k then Some i else go (i + 1) t in
  go 0 ids

let run_ops (line : string) (answer : (int, unit, int * int) stack -> hook -> string) : string =
  let stack = ref [base] and ids = ref [0] and next = ref 0 and out = ref [] in
  Stdlib.List.iter (fun tok ->
    let rest = String.sub tok 1 (String.length tok - 1) in
    match tok.[0] with
    | '+' -> incr next; stack := add_cb (-1) !stack; ids := !next :: !ids
    | 'P' -> let k = int_of_string rest in
        (match position !ids k with
         | Some i -> stack := set_priv (nat_of_int i) k !stack | None -> ())
    | 'O' -> (match split_on ':' rest with
        | [k; h] -> let k = int_of_string k in
            (match position !ids k with
             | Some i -> stack := set_hook (nat_of_int i) (hook_of_int (int_of_string h))
                                   (fun p () -> (k, p)) !stack
             | None -> ())
        | _ -> failwith "bad O")
    | '-' -> let k = int_of_string rest in
        (match position !ids k with
         | Some i -> stack := del_cb (nat_of_int i) !stack;
                     ids := Stdlib.List.filter (fun x -> x <> k) !ids
         | None -> ())
    | 'I' -> out := answer !stack (hook_of_int (int_of_string rest)) :: !out
    | _ -> failwith ("bad op " ^ tok)) (words line);
  String.concat " " (Stdlib.List.rev !out)

let show (own, seen) = Printf.sprintf "%d:%d" own seen

(* ---- cache histories ("C" lines) ------------------------------------------------------- *)
let base_page_layer (bcaps : int) (served : int) : (int, (BinNums.coq_N * BinNums.coq_N), CbCache.hres) layer =
  { l_priv = 1;
    l_hook = (fun h -> match h with
                       | HGetPage -> Some (fun _ (a_as, a) ->
                           let i = int_of_n a_as in
                           if i > 2 || served land (1 lsl i) = 0 then CbCache.HPage None
                           else CbCache.HPage (CbCache.cb_page_source a_as a))
                       | HReadCaps -> Some (fun _ _ -> CbCache.HCaps (n_of_int bcaps))
                       | _ -> None) }
let def_layer : (int, (BinNums.coq_N * BinNums.coq_N), CbCache.hres) layer =
  { l_priv = 0; l_hook = (fun h -> match h with
                                   | HReadCaps -> Some (fun _ _ -> CbCache.HCaps BinNums.N0)
                                   | _ -> Some (fun _ _ -> CbCache.HPage None)) }

(* B<mask> / V<mask> configure the base layer *)
let base_config (line : string) : int * int =
  Stdlib.List.fold_left (fun (b, v) tok ->
    let rest = String.sub tok 1 (String.length tok - 1) in
    match tok.[0] with
    | 'B' -> (int_of_string ("0x" ^ rest), v)
    | 'V' -> (b, int_of_string ("0x" ^ rest))
    | _ -> (b, v)) (3, 3) (words line)

let parse_hops (line : string) : int CbCache.hop list =
  Stdlib.List.filter_map (fun tok ->
    let rest = String.sub tok 1 (String.length tok - 1) in
    match tok.[0] with
    | '+' -> if rest <> "" && rest.[0] = 'c'
             then Some (CbCache.HAddCaps (7, n_of_hex (String.sub rest 1 (String.length rest - 1))))
             else Some (CbCache.HAdd 7)
    | '-' -> Some (CbCache.HDel (nat_of_int (int_of_string rest)))
    | 'R' -> (match split_on ':' rest with
              | [a_as; a] -> Some (CbCache.HRead (n_of_hex a_as, n_of_hex a, n_of_int 8))
              | _ -> failwith "bad R")
    | 'C' | 'B' | 'V' -> None
    | _ -> failwith ("bad cache op " ^ tok)) (words line)

let le_value (l : BinNums.coq_N list) : string =
  let v = Stdlib.List.fold_right (fun b acc -> Int64.add (Int64.shift_left acc 8) (Int64.of_int (int_of_n b))) l 0L in
  Printf.sprintf "%Lx" v

let show_rres = function
  | ReadCache.RBytes l -> "0:" ^ le_value l
  | ReadCache.RFail -> "5:0"
  | ReadCache.RRecursion -> "RECURSION"
  | ReadCache.ROOB -> "OOB"

let count p l = Stdlib.List.length (Stdlib.List.filter p l)

(* "Y <as>:<addr>": what the page source answers (region start, size, first 8 bytes) — compared with
   the driver's own page source before the histories are run *)
let probe_case (line : string) : string =
  match words line with
  | [_; x] -> (match split_on ':' x with
      | [a_as; a] ->
          (match CbCache.cb_page_source (n_of_hex a_as) (n_of_hex a) with
           | None -> "none"
           | Some ((b, sz), d) ->
               Printf.sprintf "%s:%s:%s" (hex_of_n b) (hex_of_n sz)
                 (le_value (Stdlib.List.filteri (fun i _ -> i < 8) d)))
      | _ -> failwith "bad Y")
  | _ -> failwith "bad Y"

let cache_case (line : string) : string =
  let ops = parse_hops line in
  let (bc, sv) = base_config line in
  let st0 = { CbCache.h_stack = [base_page_layer bc sv; def_layer]; CbCache.h_cache = ReadCache.init_cache } in
  let ((st', ev), rs) = CbCache.hrun st0 ops in
  let fin = ReadCache.cleanup_events st'.CbCache.h_cache in
  let gets = count (function ReadCache.Got _ -> true | _ -> false) ev in
  let puts = count (function ReadCache.Put _ -> true | _ -> false) (ev @ fin) in
  String.concat " " (Stdlib.List.map show_rres rs)
  ^ (if rs = [] then "" else " ")
  ^ Printf.sprintf "gets=%d puts=%d double=0 unput=0" gets puts

(* spec: every read returns what the page source holds at that address (the cache-less
   computation ReadCache.direct); every page obtained is put exactly once *)
let cachespec_case (line : string) : string =
  match split_on '|' line with
  | [opsl; ansl] ->
      let opsl = String.trim opsl in
      let ops = parse_hops opsl and ans = words ansl in
      let (bc, sv) = base_config opsl in
      (* the spec's own view of the stack: the read capabilities are those of the first read_caps
         implementation at or below the top (CbSpec.invoke_spec); the page source is the base layer's *)
      let stack = ref [base_page_layer bc sv; def_layer] in
      let expected = ref [] in
      Stdlib.List.iter (fun o -> match o with
        | CbCache.HAdd p -> stack := add_cb p !stack
        | CbCache.HAddCaps (p, m) -> stack := CbCache.caps_layer p m :: !stack
        | CbCache.HDel i -> stack := del_cb i !stack
        | CbCache.HBury _ -> ()
        | CbCache.HRead (s, a, n) ->
            let mask = match CbSpec.invoke_spec !stack HReadCaps (BinNums.N0, BinNums.N0) with
              | Some (CbCache.HCaps m) -> m | _ -> BinNums.N0 in
            let src x y = match CbSpec.invoke_spec !stack HGetPage (x, y) with
              | Some (CbCache.HPage r) -> r | _ -> None in
            let want = match CbCache.eff_as mask s with
              | None -> "5:0"
              | Some s' -> show_rres (ReadCache.direct src s' a n) in
            expected := (s, a, want) :: !expected) ops;
      let reads = Stdlib.List.rev !expected in
      let nr = Stdlib.List.length reads in
      if Stdlib.List.length ans <> nr + 4 then "malformed answer" else
      let rec go rs al = match rs, al with
        | (s, a, want) :: rs', x :: al' ->
            if x = want then go rs' al'
            else Printf.sprintf "read of %s:%s returns %s; the implementation in charge of read_caps and the page source at that moment give %s"
                   (hex_of_n s) (hex_of_n a) x want
        | _, tr ->
            (match tr with
             | [g; p; d; u] ->
                 let v k t = int_of_string (String.sub t (String.length k) (String.length t - String.length k)) in
                 let g = v "gets=" g and p = v "puts=" p and d = v "double=" d and u = v "unput=" u in
                 if d <> 0 then Printf.sprintf "%d page(s) were given back twice (put_page on a released buffer)" d
                 else if u <> 0 then Printf.sprintf "%d page(s) were never given back" u
                 else if g <> p then Printf.sprintf "%d pages obtained, %d given back" g p
                 else "ok"
             | _ -> "malformed trailer") in
      go reads ans
  | _ -> "malformed line"

let run_case (line : string) : string =
  if line <> "" && (line.[0] = 'K' || line.[0] = 'L') then "same" else
  if line <> "" && line.[0] = 'C' then cache_case line else
  if line <> "" && line.[0] = 'Y' then probe_case line else
  if line = "SITES" then
    String.concat " " (Stdlib.List.map (fun (h, sa) ->
      (match h with HGetPage -> "get_page" | HReadCaps -> "read_caps" | HRegValue -> "reg_value"
       | HSymValue -> "sym_value" | HSymSizeof -> "sym_sizeof" | HSymOffsetof -> "sym_offsetof"
       | HNumValue -> "num_value") ^ ":" ^ (match sa with PassSame -> "same" | PassOther _ -> "other"))
      library_sites) else
  run_ops line (fun stack h ->
    match invoke (not pinned) stack h () (nat_of_int 64) with
    | Done r -> show r
    | NullDeref -> "NULL-DEREF"
    | OutOfFuel -> "DIVERGES")

(* what the specification demands for every I op of the line *)
let spec_case (line : string) : string =
  if line <> "" && (line.[0] = 'K' || line.[0] = 'L' || line.[0] = 'S' || line.[0] = 'C' || line.[0] = 'Y') then "same" else
  run_ops line (fun stack h ->
    match CbSpec.invoke_spec stack h () with
    | Some r -> show r
    | None -> "NO-IMPLEMENTATION")

let engines = [ "cb", run_case; "cb-spec", spec_case; "cb-cachespec", cachespec_case ]
