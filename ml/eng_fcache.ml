(* engines "fcache" / "fcache-spec" (C04, file-cache layer; model Hist/FcacheChunk.v)

   case:  <nfiles> <sz0>,<sz1>,.. <pgszlog> <order> <cap> | <op> <op> ...   (hex numbers)
     G:<f>:<pos>:<mf>:<rf>   P:<h>   R:<f>:<pos>:<len>:<mf>:<rf>
     K:<f>:<pos>:<len>:<mf>:<rf>:<al>   H:<f>:<pos>:<len>:<mf>:<rf>:<al>   Q:<h>   M:<p>
     <f> = file index; <mf>/<rf>/<al> = strings of 0/1 ("-" = none): the i-th
     mmap/pread/malloc call of the op fails.
     Byte of file f at offset o = (o*31 + o/4096*7 + 5 + 101*f) & 0xff.
   output ("fcache"): one token per op, then "= <refsum mm> <refsum fb> <live> <policy>"
     G<st>:<len>:<fnv64>  R<st>:<fnv64>  P Q M (errors: just the status)
     K / H followed by a brace-enclosed list of alternatives separated by a bar: the
     results under every adjacency oracle (the choice of the allocator), each
     "<st>:<nent>:<copied>:<fnv64>" or "<st>"; the token of the implementation must be
     one of them.  If the alternatives leave different references/policy behind,
     the token is followed by "~" and the line ends there (the rest is not comparable).
   The replacement oracle is "drop every unreferenced entry at each miss"
   (outputs do not depend on it: fcache_policy_irrelevant). *)
open Util
open FcacheChunk

let byte_tab = Array.init 256 n_of_int
let file_byte (f : BinNums.coq_N) : BinNums.coq_N -> BinNums.coq_N =
  let fi = int_of_n f in
  fun o -> let i = int_of_n o in byte_tab.((i * 31 + i / 4096 * 7 + 5 + 101 * fi) land 0xff)

let fnv64 (bs : BinNums.coq_N list) : string =
  let h = ref 0xcbf29ce484222325L in
  Stdlib.List.iter (fun b ->
    h := Int64.mul (Int64.logxor !h (Int64.of_int (int_of_n b))) 0x100000001b3L) bs;
  Printf.sprintf "%Lx" !h

(* saturating conversion: offsets near 2^63 only need to compare as "far beyond EOF" *)
let int_of_n_sat (n : BinNums.coq_N) : int =
  if String.length (hex_of_n n) > 14 then max_int / 8 else int_of_n n

let bits (s : string) : bool list =
  if s = "-" then [] else Stdlib.List.init (String.length s) (fun i -> s.[i] = '1')

let policy_of_int = function 0 -> NEVER | 1 -> ALWAYS | 3 -> TRY_ONCE | _ -> TRY

type pop =
  | PGet of BinNums.coq_N * BinNums.coq_N * bool list * bool list            (* file, pos *)
  | PPut of int
  | PRead of BinNums.coq_N * BinNums.coq_N * BinNums.coq_N * bool list * bool list
  | PChunk of bool * BinNums.coq_N * BinNums.coq_N * BinNums.coq_N
              * bool list * bool list * bool list                               (* hold? *)
  | PChunkPut of int
  | PPolicy of int

let parse_op (s : string) : pop =
  match split_on ':' s with
  | ["G"; f; p; mf; rf] -> PGet (n_of_hex f, n_of_hex p, bits mf, bits rf)
  | ["P"; h] -> PPut (int_of_n (n_of_hex h))
  | ["R"; f; p; l; mf; rf] -> PRead (n_of_hex f, n_of_hex p, n_of_hex l, bits mf, bits rf)
  | ["K"; f; p; l; mf; rf; al] ->
      PChunk (false, n_of_hex f, n_of_hex p, n_of_hex l, bits mf, bits rf, bits al)
  | ["H"; f; p; l; mf; rf; al] ->
      PChunk (true, n_of_hex f, n_of_hex p, n_of_hex l, bits mf, bits rf, bits al)
  | ["Q"; h] -> PChunkPut (int_of_n (n_of_hex h))
  | ["M"; p] -> PPolicy (int_of_n (n_of_hex p))
  | _ -> failwith ("bad op " ^ s)

type hdr = { nfiles : int; sizes : BinNums.coq_N array; pgshift : BinNums.coq_N;
             order : BinNums.coq_N; cap : BinNums.coq_N }

let parse_case (line : string) : hdr * string list =
  match words line with
  | nf :: szs :: pl :: od :: cp :: "|" :: ops ->
      let nfiles = int_of_n (n_of_hex nf) in
      let sizes = Array.of_list (Stdlib.List.map n_of_hex (split_on ',' szs)) in
      if Array.length sizes <> nfiles then failwith "bad case: sizes";
      { nfiles; sizes; pgshift = n_of_hex pl; order = n_of_hex od; cap = n_of_hex cp }, ops
  | _ -> failwith "bad case"

(* fc->info[fidx].filesz; the generator never uses an index outside the set *)
let fsz (h : hdr) (f : BinNums.coq_N) : BinNums.coq_N =
  let i = int_of_n f in if i < h.nfiles then h.sizes.(i) else BinNums.N0

let orc mf rf adj al = { o_ev = []; o_mf = mf; o_rf = rf; o_adj = adj; o_al = al }

let code s = string_of_int (int_of_n (status_code s))

let show_data tag (bs : BinNums.coq_N list) (g : geometry option) : string =
  match g with
  | None -> tag ^ "0:" ^ Printf.sprintf "%x" (Stdlib.List.length bs) ^ ":" ^ fnv64 bs
  | Some g ->
      let nent, copied = match g with
        | GEmpty -> 0, 0 | Embedded n | Array n -> int_of_n n, 0 | Copied -> 0, 1 in
      Printf.sprintf "%s0:%x:%d:%s" tag nent copied (fnv64 bs)

let show_out tag kind (o : outcome) : string =
  match o with
  | OutData (bs, g) ->
      (match kind with
       | `Get -> show_data tag bs None
       | `Read -> tag ^ "0:" ^ fnv64 bs
       | `Chunk -> show_data tag bs (Some g))
  | OutErr s -> tag ^ code s
  | OutDone -> tag
  | OutSigbus -> tag ^ "!SIGBUS"
  | OutOOB -> tag ^ "!OOB"
  | OutFuel -> tag ^ "!FUEL"

(* what later operations can depend on, up to unreferenced cache contents *)
let canon (m : machine) : string =
  let st = m.m_st in
  let ents f l = String.concat "," (Stdlib.List.sort compare (Stdlib.List.filter_map f l)) in
  let mm = ents (fun e ->
    if e.e_ref <> BinNums.N0 || e.e_val = MapFailed
    then Some (hex_of_n e.e_key ^ ":" ^ hex_of_n e.e_ref ^ (if e.e_val = MapFailed then "F" else ""))
    else None) st.st_mm.s_ents in
  let fb = ents (fun e ->
    if e.e_ref <> BinNums.N0 then Some (hex_of_n e.e_key ^ ":" ^ hex_of_n e.e_ref) else None)
    st.st_fb.s_ents in
  let ch = String.concat ";" (Stdlib.List.map (function
    | None -> "-"
    | Some c ->
        (match c.ch_geom with GEmpty -> "E" | Embedded _ -> "e" | Array _ -> "a" | Copied -> "c") ^
        String.concat "," (Stdlib.List.map (fun f ->
          (match f.fc_which with MM -> "m" | FB -> "f") ^ hex_of_n f.fc_key) c.ch_held))
    m.m_chunks) in
  Printf.sprintf "%s|%s|%s|%s|%s" (hex_of_n (policy_code st.st_policy)) (hex_of_n st.st_live) mm fb ch

let run_case (line : string) : string =
  let h, ops = parse_case line in
  let stp m o = step h.pgshift h.order (fsz h) file_byte true true m o in
  let m = ref (init_machine h.cap h.cap) in
  let out = Buffer.create 256 in
  let stop = ref false in
  Stdlib.List.iter (fun s ->
    if not !stop then begin
      let tok =
        match parse_op s with
        | PGet (f, p, mf, rf) ->
            let r, m1 = stp !m (OpGet (f, p, orc mf rf [] [])) in m := m1; show_out "G" `Get r
        | PPut i -> let r, m1 = stp !m (OpPut (nat_of_int i)) in m := m1; "P"
        | PRead (f, p, l, mf, rf) ->
            let r, m1 = stp !m (OpPread (f, p, l, orc mf rf [] [])) in m := m1; show_out "R" `Read r
        | PChunk (hold, f, p, l, mf, rf, al) ->
            let tag = if hold then "H" else "K" in
            let npages = int_of_n l / (1 lsl int_of_n h.pgshift) + 2 in
            let alts = Stdlib.List.init (npages + 1) (fun j ->
              let adj = Stdlib.List.init j (fun _ -> true) in
              let o = orc mf rf adj al in
              let r, m1 = stp !m (if hold then OpChunkHold (f, p, l, o) else OpChunk (f, p, l, o)) in
              show_out "" `Chunk r, m1) in
            let strs = Stdlib.List.sort_uniq compare (Stdlib.List.map fst alts) in
            let cans = Stdlib.List.sort_uniq compare (Stdlib.List.map (fun (_, m1) -> canon m1) alts) in
            m := snd (Stdlib.List.hd alts);
            let t = tag ^ "{" ^ String.concat "|" strs ^ "}" in
            if Stdlib.List.length cans > 1 then (stop := true; t ^ " ~") else t
        | PChunkPut i -> let r, m1 = stp !m (OpChunkPut (nat_of_int i)) in m := m1; "Q"
        | PPolicy p -> let r, m1 = stp !m (OpPolicy (policy_of_int p)) in m := m1; "M"
      in
      if Buffer.length out > 0 then Buffer.add_char out ' ';
      Buffer.add_string out tok
    end) ops;
  if not !stop then begin
    let st = !m.m_st in
    if Buffer.length out > 0 then Buffer.add_char out ' ';
    Buffer.add_string out (Printf.sprintf "= %d %d %d %d"
      (int_of_n (refsum st.st_mm)) (int_of_n (refsum st.st_fb))
      (int_of_n st.st_live) (int_of_n (policy_code st.st_policy)))
  end;
  Buffer.contents out

(* ---- spec mode: "<case> # <implementation's output line>" -> "ok" or the reason.
   Every OK result is compared with the specification's [slice]; the error statuses are
   checked against the rules of fcache_policy_irrelevant / fcache_beyond_eof. *)
let spec_case (line : string) : string =
  match split_on '#' line with
  | [case; impl] ->
      let h, ops = parse_case (String.trim case) in
      let toks = words impl in
      let pgsz = 1 lsl int_of_n h.pgshift in
      let cap = int_of_n h.cap in
      let pceil_of f = int_of_n_sat (pageceil h.pgshift (fsz h f)) in
      let slice_hash f p l = fnv64 (slice (fsz h f) (file_byte f) p l) in
      let off_t_max_ok p l = int_of_n_sat p < max_int / 8 && int_of_n_sat l < max_int / 8 in
      let pols = ref [2] in                 (* policies possibly in force *)
      let outstanding = ref 0 in            (* references held by handles *)
      let mmfail_seen = ref false in
      let fce_live = Hashtbl.create 16 and nfce = ref 0 in
      let chunk_held = Hashtbl.create 16 and nchunk = ref 0 in
      let ones l = Stdlib.List.length (Stdlib.List.filter (fun b -> b) l) in
      let after_get () =
        if Stdlib.List.mem 3 !pols then
          pols := Stdlib.List.sort_uniq compare (0 :: 1 :: Stdlib.List.filter (fun p -> p <> 3) !pols) in
      let nodata_policy () = Stdlib.List.mem 1 !pols || Stdlib.List.mem 3 !pols in
      let err = ref None in
      let fail s = if !err = None then err := Some s in
      let rec go ops toks idx =
        match ops, toks with
        | [], "=" :: _ -> ()
        | [], _ -> fail "trailing output"
        | _ :: _, [] -> fail "output ends early"
        | o :: ops', t :: toks' ->
            let where = Printf.sprintf "op %d (%s -> %s): " idx o t in
            let status_rules ?(guard=false) ~tag ~beyond ~own_fail ~own_entries rest =
              (match rest with
               | "3" -> if not (guard || (beyond && nodata_policy ())) then
                     fail (where ^ "NODATA although the range is inside the file's pages or the policy never refuses")
               | "8" -> if !outstanding + own_entries < cap then
                     fail (where ^ "BUSY although fewer than cap entries are referenced")
               | "1" -> if not (own_fail || !mmfail_seen) then
                     fail (where ^ "ERR_SYSTEM without any I/O, mmap or allocation failure")
               | _ -> fail (where ^ "unexpected token")) in
            (match parse_op o with
             | PGet (f, p, mf, rf) ->
                 let pceil_i = pceil_of f in
                 let pi = int_of_n_sat p in
                 (match split_on ':' t with
                  | ["G0"; l; hsh] ->
                      let ln = n_of_hex l in
                      let li = int_of_n_sat ln in
                      if li < 1 then fail (where ^ "empty entry")
                      else if li > pgsz lsl int_of_n h.order then fail (where ^ "entry longer than a mapping")
                      else if pi < pceil_i && pi + li > pceil_i then fail (where ^ "entry extends past the EOF page")
                      else if hsh <> slice_hash f p ln then fail (where ^ "bytes differ from the slice of this file");
                      Hashtbl.replace fce_live !nfce true; Stdlib.incr nfce; outstanding := !outstanding + 1
                  | [g] when String.length g > 1 && g.[0] = 'G' ->
                      status_rules ~tag:"G" ~beyond:(pi >= pceil_i) ~own_fail:(ones mf + ones rf > 0)
                        ~own_entries:0 (String.sub g 1 (String.length g - 1))
                  | _ -> fail (where ^ "unexpected token"));
                 if ones mf > 0 then mmfail_seen := true;
                 after_get ()
             | PPut i ->
                 if t <> "P" then fail (where ^ "unexpected token");
                 if Hashtbl.mem fce_live i then (Hashtbl.remove fce_live i; outstanding := !outstanding - 1)
             | PRead (f, p, l, mf, rf) ->
                 let pceil_i = pceil_of f in
                 (match split_on ':' t with
                  | ["R0"; hsh] ->
                      if hsh <> slice_hash f p l then fail (where ^ "bytes differ from the slice of this file")
                  | [g] when String.length g > 1 && g.[0] = 'R' ->
                      status_rules ~tag:"R" ~beyond:(int_of_n_sat p + int_of_n_sat l > pceil_i)
                        ~own_fail:(ones mf + ones rf > 0) ~own_entries:0
                        (String.sub g 1 (String.length g - 1))
                  | _ -> fail (where ^ "unexpected token"));
                 if ones mf > 0 then mmfail_seen := true;
                 if int_of_n_sat l > 0 then after_get ()
             | PChunk (hold, f, p, l, mf, rf, al) ->
                 let pceil_i = pceil_of f in
                 let tag = if hold then 'H' else 'K' in
                 let li = int_of_n_sat l and pi = int_of_n_sat p in
                 let est = if li = 0 then 0 else (pi + li - 1) / pgsz - pi / pgsz + 1 in
                 (match split_on ':' t with
                  | [k0; nent; copied; hsh] when k0 = String.make 1 tag ^ "0" ->
                      let ne = int_of_n (n_of_hex nent) in
                      if hsh <> slice_hash f p l then fail (where ^ "bytes differ from the slice of this file")
                      else if copied = "1" && ne <> 0 then fail (where ^ "copied chunk with entries")
                      else if ne > est then fail (where ^ "more entries than pages")
                      else if li > 0 && copied = "0" && ne = 0 then fail (where ^ "no entries and no copy");
                      if hold then begin
                        Hashtbl.replace chunk_held !nchunk ne; Stdlib.incr nchunk;
                        outstanding := !outstanding + ne
                      end
                  | [g] when String.length g > 1 && g.[0] = tag ->
                      status_rules ~tag:"K" ~guard:(not (off_t_max_ok p l))
                        ~beyond:(pi + li > pceil_i)
                        ~own_fail:(ones mf + ones rf + ones al > 0)
                        ~own_entries:(if est > 0 then est - 1 else 0)
                        (String.sub g 1 (String.length g - 1))
                  | _ -> fail (where ^ "unexpected token"));
                 if ones mf > 0 then mmfail_seen := true;
                 if li > 0 then after_get ()
             | PChunkPut i ->
                 if t <> "Q" then fail (where ^ "unexpected token");
                 (match Hashtbl.find_opt chunk_held i with
                  | Some n -> Hashtbl.remove chunk_held i; outstanding := !outstanding - n
                  | None -> ())
             | PPolicy p ->
                 if t <> "M" then fail (where ^ "unexpected token");
                 pols := [match p with 0 | 1 | 3 -> p | _ -> 2]);
            if !err = None then go ops' toks' (idx + 1)
      in
      go ops toks 0;
      (match !err with None -> "ok" | Some s -> s)
  | _ -> failwith "bad spec line"

let engines = [ "fcache", run_case; "fcache-spec", spec_case ]
