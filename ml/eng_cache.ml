(* engine "cache" (C06): one history per line: "<cap> <op> <op> ..."
     g:<hexkey>   cache_get_entry
     i:<j> d:<j> p:<j>   cache_insert / cache_discard on the j-th pending handle,
                         cache_put_entry on the j-th plain handle (modulo their number)
     f            cache_flush (when no handle is outstanding)
   output: segments joined by " | ": "init # <state>", then per op
     "<op> <ret> ev=<entry>/<refcnt>,... # <state>"  |  "skip"  |  "FAULT <op> <what>"  |  "-"
   engine "cache-spec": "<state> @ <op> <ret> ev=... @ <state>" -> "ok" or the clause that fails
   Parsing and printing only. *)
open Util
open CacheList

let ni = int_of_nat
let commas f l = String.concat "," (Stdlib.List.map f l)
let ilist l = commas (fun e -> string_of_int (ni e)) l

let show_estate = function Valid -> "0" | SProbe -> "1" | SPrec -> "2"

let rec seq a n = if n <= 0 then [] else a :: seq (a + 1) (n - 1)

let show_state (s : st) : string =
  let r = ring s in
  let split = match Stdlib.List.rev r with e :: _ -> string_of_int (ni e) | [] -> "none" in
  let len l = Stdlib.List.length l in
  let ent i =
    let e = nat_of_int i in
    let d = s.data e in
    Printf.sprintf "%s:%s:%d:%s:%s" (hex_of_n (s.key e)) (show_estate (s.est e)) (ni (s.ref e))
      (match d with Some t -> string_of_int (ni t) | None -> "-1")
      (match d with
       | Some t -> (match s.content t with Some k -> hex_of_n k | None -> "-")
       | None -> "-") in
  Printf.sprintf "cap=%d split=%s np=%d ngp=%d nq=%d ngq=%d dp=%d nin=%d ring=%s infl=%s ent=%s hm=%s,%s pend=%s plain=%s"
    (ni s.cap) split (len s.prec) (len s.gprec) (len s.probe) (len s.gprobe) (ni s.dprobe)
    (len s.infl) (ilist r) (ilist s.infl)
    (String.concat ";" (Stdlib.List.map ent (seq 0 (2 * ni s.cap))))
    (hex_of_n s.hits) (hex_of_n s.misses) (ilist s.pend) (ilist s.plain)

let show_op = function
  | Get k -> "get:" ^ hex_of_n k
  | Insert e -> "ins:" ^ string_of_int (ni e)
  | Discard e -> "dis:" ^ string_of_int (ni e)
  | Put e -> "put:" ^ string_of_int (ni e)
  | Flush -> "flush"

let show_ret = function
  | RBusy -> "busy"
  | REntry (e, v) -> "e" ^ string_of_int (ni e) ^ (if v then ":hit" else ":fill")
  | RDone -> "done"

let show_ev ev = "ev=" ^ commas (fun (e, r) -> Printf.sprintf "%d/%d" (ni e) (ni r)) ev

let show_fault = function
  | UnsetZprec -> "UnsetZprec" | UnsetZprobe -> "UnsetZprobe" | NoUnused -> "NoUnused"
  | NoEntryForMiss -> "NoEntryForMiss" | NotInflight -> "NotInflight"
  | RefUnderflow -> "RefUnderflow" | NullBuffer -> "NullBuffer"

let parse_sop (w : string) : sop =
  match split_on ':' w with
  | ["g"; k] -> SGet (n_of_hex k)
  | ["i"; j] -> SIns (nat_of_int (int_of_string j))
  | ["d"; j] -> SDis (nat_of_int (int_of_string j))
  | ["p"; j] -> SPut (nat_of_int (int_of_string j))
  | ["f"] -> SFlush
  | ["r"; c] -> SRealloc (nat_of_int (int_of_string c))
  | _ -> failwith ("bad op " ^ w)

let show_out = function
  | OSkip -> "skip"
  | OStep (o, r, ev, s) -> show_op o ^ " " ^ show_ret r ^ " " ^ show_ev ev ^ " # " ^ show_state s
  | OFault (o, f) -> "FAULT " ^ show_op o ^ " " ^ show_fault f
  | ORealloc (c, ev, s) -> "realloc:" ^ string_of_int (ni c) ^ " done " ^ show_ev ev ^ " # " ^ show_state s
  | ODead -> "-"

(* "<cap> ops" runs the model of the repaired cache.c; "<cap>u ops" the pinned one *)
let run_case (line : string) : string =
  match words line with
  | [] -> failwith "empty case"
  | c :: ops ->
      let fixed = not (String.length c > 0 && c.[String.length c - 1] = 'u') in
      let c = if fixed then c else String.sub c 0 (String.length c - 1) in
      let s0 = init (nat_of_int (int_of_string c)) in
      let outs = run_slots fixed s0 (Stdlib.List.map parse_sop ops) in
      String.concat " | " (("init # " ^ show_state s0) :: Stdlib.List.map show_out outs)

(* ---- spec mode: judge dumps of the implementation ---- *)
let field (kv : (string * string) list) k =
  try Stdlib.List.assoc k kv with Not_found -> failwith ("state without " ^ k)

(* counters and indices of a dump; anything huge is garbage (e.g. an uninitialised member) *)
let nat_of_int i =
  if i < 0 || i > 1_000_000 then failwith ("value " ^ string_of_int i ^ " out of any plausible range (uninitialised member?)")
  else Util.nat_of_int i

let parse_ilist s = if s = "" then [] else
  Stdlib.List.map (fun x -> nat_of_int (int_of_string x)) (split_on ',' s)

let parse_state (str : string) : CacheSpec.dump =
  let kv = Stdlib.List.map (fun w ->
    match String.index_opt w '=' with
    | Some i -> (String.sub w 0 i, String.sub w (i + 1) (String.length w - i - 1))
    | None -> failwith ("bad state field " ^ w)) (words str) in
  let nat k = nat_of_int (int_of_string (field kv k)) in
  let ents = Stdlib.List.filter (fun x -> x <> "") (split_on ';' (field kv "ent")) in
  let ent x = match split_on ':' x with
    | [k; s; r; b; c] ->
        ((((n_of_hex k,
            (match s with "0" -> Valid | "1" -> SProbe | "2" -> SPrec
                        | _ -> failwith "bad entry state")),
           nat_of_int (int_of_string r)),
          (if b = "-1" then None else Some (nat_of_int (int_of_string b)))),
         (if c = "-" then None else Some (n_of_hex c)))
    | _ -> failwith ("bad entry " ^ x) in
  let hm = split_on ',' (field kv "hm") in
  { CacheSpec.d_cap = nat "cap"; d_nprec = nat "np"; d_ngprec = nat "ngp"; d_nprobe = nat "nq";
    d_ngprobe = nat "ngq"; d_dprobe = nat "dp"; d_ring = parse_ilist (field kv "ring");
    d_infl = parse_ilist (field kv "infl"); d_ents = Stdlib.List.map ent ents;
    d_hits = n_of_hex (Stdlib.List.nth hm 0); d_misses = n_of_hex (Stdlib.List.nth hm 1);
    d_pend = parse_ilist (field kv "pend"); d_plain = parse_ilist (field kv "plain") }

let parse_step (str : string) =
  match words str with
  | [o; r; ev] ->
      let o = match split_on ':' o with
        | ["get"; k] -> Get (n_of_hex k)
        | ["ins"; e] -> Insert (nat_of_int (int_of_string e))
        | ["dis"; e] -> Discard (nat_of_int (int_of_string e))
        | ["put"; e] -> Put (nat_of_int (int_of_string e))
        | ["flush"] -> Flush
        | _ -> failwith ("bad op " ^ o) in
      let r = if r = "busy" then RBusy else if r = "done" then RDone else
        (match split_on ':' r with
         | [e; v] when String.length e > 1 && e.[0] = 'e' ->
             REntry (nat_of_int (int_of_string (String.sub e 1 (String.length e - 1))), v = "hit")
         | _ -> failwith ("bad result " ^ r)) in
      let ev = String.sub ev 3 (String.length ev - 3) in
      let ev = if ev = "" then [] else Stdlib.List.map (fun p ->
        match split_on '/' p with
        | [e; n] -> (nat_of_int (int_of_string e), nat_of_int (int_of_string n))
        | _ -> failwith "bad ev") (split_on ',' ev) in
      (o, r, ev)
  | _ -> failwith ("bad step " ^ str)

let clause_names = [
  0, "capacity is zero"; 1, "entries are not spread one-to-one over the partitions and the in-flight list";
  2, "more cached + in-flight entries than buffers";
  3, "free buffers are not the last unused entries (an unused entry before them has one, or one of them has none)";
  4, "buffer index out of range"; 5, "a buffer is owned by two entries"; 6, "a buffer is owned by no entry";
  7, "a cached or in-flight entry has no buffer"; 8, "a ghost entry owns a buffer";
  9, "two cached/in-flight entries have the same key"; 10, "reference count differs from the handles outstanding";
  11, "a referenced entry is neither cached nor in flight"; 12, "an in-flight entry is not held by a pending handle only";
  13, "a cached entry is not in state valid"; 14, "an in-flight entry is in state valid"; 15, "dprobe exceeds capacity";
  16, "a committed entry's buffer does not hold the data inserted for its key";
  17, "a referenced entry was evicted, lost or changed its key/buffer, or its committed data was rewritten";
  18, "an entry handed to the cleanup callback (evicted) was referenced";
  19, "capacity changed"; 20, "hit on an entry that was not cached"; 21, "hit on an entry with another key";
  22, "hit entry changed its buffer"; 23, "hit returns a buffer that does not hold the data inserted for the key";
  24, "miss returns an entry that is not in flight"; 25, "miss returns an entry with another key";
  26, "miss hands out no buffer, or a buffer that a referenced entry owned";
  27, "busy lookup changed the cache"; 28, "lookup refused although a buffer is neither referenced nor being filled";
  29, "lookup of a cached or in-flight key refused"; 30, "lookup returned nothing"; 31, "unexpected result" ]

let name_of n = try Stdlib.List.assoc n clause_names with Not_found -> "clause " ^ string_of_int n

let spec_case (line : string) : string =
  match Stdlib.List.map String.trim (split_on '@' line) with
  | [before; stp; after] ->
      (match CacheSpec.of_dump (parse_state after) with
       | None -> "partition counters exceed the ring length"
       | Some s' ->
           let bad = CacheSpec.failed (CacheSpec.spec_inv_clauses s') in
           let bad = if stp = "init" then bad else
             (match CacheSpec.of_dump (parse_state before) with
              | None -> bad
              | Some s ->
                  let (o, r, ev) = parse_step stp in
                  bad @ CacheSpec.failed (CacheSpec.step_okb_clauses s o r ev s')) in
           (match bad with
            | [] -> "ok"
            | n :: _ -> Printf.sprintf "[%d] %s" (ni n) (name_of (ni n))))
  | _ -> failwith "bad spec line"

(* ---- the pointer-level model: same line as the C driver prints, including the raw
   next/prev members ---- *)
let show_rstate (r : CacheRing.rst) : string =
  let open CacheRing in
  let n = 2 * ni r.rcap in
  let ent i =
    let e = nat_of_int i in
    let d = r.rdata e in
    Printf.sprintf "%s:%s:%d:%s:%s" (hex_of_n (r.rkey e)) (show_estate (r.rest e)) (ni (r.rref e))
      (match d with Some t -> string_of_int (ni t) | None -> "-1")
      (match d with
       | Some t -> (match r.rcontent t with Some k -> hex_of_n k | None -> "-")
       | None -> "-") in
  let arr f = String.concat "," (Stdlib.List.map (fun i -> string_of_int (ni (f (nat_of_int i)))) (seq 0 n)) in
  Printf.sprintf "cap=%d split=%d np=%d ngp=%d nq=%d ngq=%d dp=%d nin=%d ring=%s infl=%s ent=%s hm=%s,%s pend=%s plain=%s raw=%d nx=%s pv=%s"
    (ni r.rcap) (ni r.split) (ni r.nprec) (ni r.ngprec) (ni r.nprobe) (ni r.ngprobe) (ni r.rdprobe)
    (ni r.ninflight) (ilist (rwalk r)) (ilist (iwalk r))
    (String.concat ";" (Stdlib.List.map ent (seq 0 n)))
    (hex_of_n r.rhits) (hex_of_n r.rmisses) (ilist r.rpend) (ilist r.rplain)
    (ni r.inflight) (arr r.nx) (arr r.pv)

let show_rfault = function
  | CacheRing.RF f -> show_fault f
  | CacheRing.CounterUnderflow -> "CounterUnderflow"

let show_rout = function
  | CacheRing.ROSkip -> "skip"
  | CacheRing.ROStep (o, r, ev, s) -> show_op o ^ " " ^ show_ret r ^ " " ^ show_ev ev ^ " # " ^ show_rstate s
  | CacheRing.ROFault (o, f) -> "FAULT " ^ show_op o ^ " " ^ show_rfault f
  | CacheRing.RORealloc (c, ev, s) -> "realloc:" ^ string_of_int (ni c) ^ " done " ^ show_ev ev ^ " # " ^ show_rstate s
  | CacheRing.RODead -> "-"

let ring_case (line : string) : string =
  match words line with
  | [] -> failwith "empty case"
  | c :: ops ->
      let c = if String.length c > 0 && c.[String.length c - 1] = 'u'
              then String.sub c 0 (String.length c - 1) else c in
      let r0 = CacheRing.rinit (nat_of_int (int_of_string c)) in
      let outs = CacheRing.rrun_slots r0 (Stdlib.List.map parse_sop ops) in
      String.concat " | " (("init # " ^ show_rstate r0) :: Stdlib.List.map show_rout outs)

let engines = [ "cache", run_case; "cache-spec", spec_case; "cache-ring", ring_case ]
