(* engine "fmt" (C01).  One case per line, shared with harness/fmt_drv.c:
     <nfiles> <path>... F=<fmt> L=<k:v,k:v,...> I=<image file> <req>...
   requests: G | Z0 | Z1 | R<as>:<addr>:<len>
   engines:  fmt-enc   write path(s) with the extracted spec encoder
             fmt       read the dump file(s) with the extracted reader model
             fmt-spec  what the image + layout demand (extracted spec)
   Parsing, file I/O and printing only. *)
open Util
open BinNums

(* ---- bytes <-> extracted byte lists ---- *)
let ntab : coq_N array = Array.init 256 n_of_int
let list_of_sub (b : Bytes.t) (off : int) (n : int) : coq_N list =
  (* zero-filled outside the buffer *)
  let r = ref [] in
  for i = off + n - 1 downto off do
    let v = if i >= 0 && i < Bytes.length b then Char.code (Bytes.get b i) else 0 in
    r := ntab.(v) :: !r
  done; !r
let list_of_string (s : string) = list_of_sub (Bytes.unsafe_of_string s) 0 (String.length s)
let buffer_add_list (buf : Buffer.t) (l : coq_N list) =
  Stdlib.List.iter (fun x -> Buffer.add_char buf (Char.chr (int_of_n x land 255))) l
let string_of_list (l : coq_N list) : string =
  let buf = Buffer.create 4096 in buffer_add_list buf l; Buffer.contents buf
let read_file (p : string) : Bytes.t =
  let ic = open_in_bin p in
  let n = in_channel_length ic in
  let b = Bytes.create n in really_input ic b 0 n; close_in ic; b
let write_file (p : string) (l : coq_N list) : int =
  let oc = open_out_bin p in
  let s = string_of_list l in output_string oc s; close_out oc; String.length s
let bytes_of_hex (s : string) : coq_N list =
  let n = String.length s / 2 in
  Stdlib.List.init n (fun i -> ntab.(hexval s.[2*i] * 16 + hexval s.[2*i+1]))

let fnv1a (l : coq_N list) : int =
  Stdlib.List.fold_left (fun h x -> ((h lxor (int_of_n x)) * 16777619) land 0xffffffff) 2166136261 l

(* ---- case line ---- *)
type case = { paths : string list; fmt : string; lay : (string * string) list;
              img : string; reqs : string list }
let parse_case (line : string) : case =
  match words line with
  | n :: rest ->
      let n = int_of_string n in
      let paths = Stdlib.List.filteri (fun i _ -> i < n) rest in
      let rest = Stdlib.List.filteri (fun i _ -> i >= n) rest in
      let opt k = Stdlib.List.fold_left (fun acc t ->
        if String.length t > 2 && t.[1] = '=' && t.[0] = k then String.sub t 2 (String.length t - 2) else acc) "" rest in
      let lay = Stdlib.List.filter_map (fun kv -> match split_on ':' kv with
        | [k; v] -> Some (k, v) | [k] when k <> "" -> Some (k, "") | _ -> None) (split_on ',' (opt 'L')) in
      { paths; fmt = opt 'F'; lay; img = opt 'I';
        reqs = Stdlib.List.filter (fun t -> not (String.length t >= 2 && t.[1] = '=')) rest }
  | [] -> failwith "empty case"
let lk c k = try Stdlib.List.assoc k c.lay with Not_found -> failwith ("layout key missing: " ^ k)
let lkn c k = n_of_hex (lk c k)
let lkb c k = lk c k = "1"
let lkbytes c k = try bytes_of_hex (Stdlib.List.assoc k c.lay) with Not_found -> []

(* ---- image file: u32 pgsz, u32 count, then per page frame u8 present
        [u32 flags, u32 paylen, payload, content(pgsz)]  (little endian) ---- *)
type ipage = { flags : int; payload : coq_N list; content : coq_N list }
let read_image (p : string) : int * ipage option list =
  let b = read_file p in
  let u32 o = Char.code (Bytes.get b o) lor (Char.code (Bytes.get b (o+1)) lsl 8)
              lor (Char.code (Bytes.get b (o+2)) lsl 16) lor (Char.code (Bytes.get b (o+3)) lsl 24) in
  let pgsz = u32 0 and cnt = u32 4 in
  let pos = ref 8 in
  let out = ref [] in
  for _ = 1 to cnt do
    let k = Char.code (Bytes.get b !pos) in incr pos;
    if k = 0 then out := None :: !out else begin
      let flags = u32 !pos and pl = u32 (!pos + 4) in
      let payload = list_of_sub b (!pos + 8) pl in
      let content = list_of_sub b (!pos + 8 + pl) pgsz in
      pos := !pos + 8 + pl + pgsz;
      out := Some { flags; payload; content } :: !out
    end
  done;
  (pgsz, Stdlib.List.rev !out)

(* the decompressor the reader models are parametrised by: the inverse of the
   writer's compressor on the payloads of this image *)
let oracle_of (img : ipage option list) : coq_N -> coq_N list -> coq_N list option =
  let tab = Hashtbl.create 64 in
  Stdlib.List.iter (function
    | Some p ->
        let m = int_of_n (DiskdumpSpec.method_of (n_of_int p.flags)) in
        Hashtbl.replace tab (m, string_of_list p.payload) p.content
    | None -> ()) img;
  fun m payload -> Hashtbl.find_opt tab (int_of_n m, string_of_list payload)

(* ---- diskdump ---- *)
let dd_layout (c : case) : DiskdumpSpec.dd_layout =
  { DiskdumpSpec.dl_be = lkb c "be"; dl_64 = lkb c "w64"; dl_pad = lkb c "pad";
    dl_kdump_sig = lkb c "ksig"; dl_version = lkn c "ver"; dl_page_size = lkn c "pgsz";
    dl_uts = lkbytes c "uts"; dl_status = lkn c "status"; dl_sub_blocks = lkn c "sub";
    dl_two_bitmaps = lkb c "two"; dl_bmp_blocks = lkn c "bmp"; dl_max_mapnr = lkn c "maxmapnr";
    dl_phys_base = lkn c "physbase"; dl_dump_level = lkn c "level";
    dl_split = lkb c "split"; dl_start_pfn = lkn c "start"; dl_end_pfn = lkn c "end";
    dl_vmcoreinfo = lkbytes c "vmci"; dl_notes = lkbytes c "notes"; dl_eraseinfo = lkbytes c "erase";
    dl_mem_extra = Stdlib.List.map (fun ch -> ch = '1')
                     (Stdlib.List.of_seq (String.to_seq (try Stdlib.List.assoc "memextra" c.lay with Not_found -> "")));
    dl_data_gap = lkn c "gap" }

let rd_of_files (files : Bytes.t array) : coq_N -> coq_N -> coq_N -> coq_N list =
  fun fidx off len ->
    let i = int_of_n fidx in
    if i >= Array.length files then list_of_sub Bytes.empty 0 (int_of_n len)
    else
      (* offsets beyond any real file (>= 2^62) read as zeros *)
      let o = try int_of_n off with _ -> max_int in
      let o = if o < 0 || o > (1 lsl 50) then (1 lsl 50) else o in
      list_of_sub files.(i) o (int_of_n len)

let status_str (st : coq_N) = string_of_int (int_of_n st)

(* a reader, abstractly: geometry line + read function *)
type reader = { geom : string; read : bool -> char -> coq_N -> coq_N -> coq_N * coq_N list }

let run_reqs (r : reader) (reqs : string list) : string =
  let z = ref false in
  String.concat " " (Stdlib.List.map (fun t ->
    if t = "G" then r.geom
    else if t = "Z0" then (z := false; "Z")
    else if t = "Z1" then (z := true; "Z")
    else if t.[0] = 'R' then begin
      match split_on ':' (String.sub t 1 (String.length t - 1)) with
      | [a; addr; len] ->
          let (st, data) = r.read !z a.[0] (n_of_hex addr) (n_of_hex len) in
          Printf.sprintf "R%s:%x:%x" (status_str st) (Stdlib.List.length data) (fnv1a data)
      | _ -> "?"
    end else "?") reqs)

let geom_str fmt be ptr pgsz maxpfn =
  Printf.sprintf "G:%s:%d:%s:%s:%s" fmt (if be then 0 else 1) (hex_of_n ptr) (hex_of_n pgsz) (hex_of_n maxpfn)

(* ---- ELF: segment file = u32 count, then per segment
        u32 type, u32 flags, u64 phys, u64 virt, u64 memsz, u64 align, u32 gap, u32 datalen, data ---- *)
let read_segs (p : string) : ElfSpec.elf_seg list =
  let b = read_file p in
  let u32 o = Char.code (Bytes.get b o) lor (Char.code (Bytes.get b (o+1)) lsl 8)
              lor (Char.code (Bytes.get b (o+2)) lsl 16) lor (Char.code (Bytes.get b (o+3)) lsl 24) in
  let u64 o = n_of_hex (String.concat "" (Stdlib.List.init 8 (fun i ->
                Printf.sprintf "%02x" (Char.code (Bytes.get b (o + 7 - i)))))) in
  let cnt = u32 0 in
  let pos = ref 4 in
  let out = ref [] in
  for _ = 1 to cnt do
    let o = !pos in
    let dl = u32 (o + 44) in
    out := { ElfSpec.sg_type = n_of_int (u32 o); sg_flags = n_of_int (u32 (o + 4));
             sg_phys = u64 (o + 8); sg_virt = u64 (o + 16); sg_memsz = u64 (o + 24);
             sg_align = u64 (o + 32); sg_gap = n_of_int (u32 (o + 40));
             sg_data = list_of_sub b (o + 48) dl; sg_filesz = n_of_int dl } :: !out;
    pos := o + 48 + dl
  done;
  Stdlib.List.rev !out

let elf_layout (c : case) : ElfSpec.elf_layout =
  { ElfSpec.el_be = lkb c "be"; el_64 = lkb c "w64"; el_machine = lkn c "machine";
    el_osabi = lkn c "osabi"; el_flags = lkn c "eflags"; el_phoff_gap = lkn c "phgap";
    el_phent_extra = lkn c "phextra" }

(* ---- SADUMP ---- *)
let dotted c k = Stdlib.List.filter (fun x -> x <> "") (split_on '.' (lk c k))
let sd_layout (c : case) : SadumpSpec.sd_layout =
  { SadumpSpec.sl_kind = (match lk c "kind" with "d" -> SadumpSpec.SdDiskSet | "m" -> SadumpSpec.SdMedia
                                                | _ -> SadumpSpec.SdSingle);
    sl_block_size = lkn c "bs"; sl_version = lkn c "ver"; sl_max_mapnr = lkn c "maxmapnr";
    sl_cpu_size = lkn c "cpusz";
    sl_lma = Stdlib.List.map (fun ch -> ch = '1') (Stdlib.List.of_seq (String.to_seq (lk c "lma")));
    sl_sub_blocks = lkn c "sub"; sl_bitmap_blocks = lkn c "bmb"; sl_dumpable_blocks = lkn c "dmb";
    sl_mem_bits = Stdlib.List.map (fun ch -> ch = '1') (Stdlib.List.of_seq (String.to_seq (lk c "membits")));
    sl_ids = lkbytes c "ids";
    sl_vol_ids = Stdlib.List.map bytes_of_hex (dotted c "vols");
    sl_disk_pages = Stdlib.List.map n_of_hex (dotted c "dpages");
    sl_set_hdr_blocks = lkn c "sethdr"; sl_magic0 = lkn c "magic0" }
let sd_image (c : case) : coq_N list option list =
  Stdlib.List.map (function Some p -> Some p.content | None -> None) (snd (read_image c.img))

(* ---- LKCD: stream file = u32 pgsz, u32 count, then per record
        u64 pfn, u32 flags, u32 paylen, payload, content(pgsz) ---- *)
type lrec = { lpfn : coq_N; lflags : int; lpayload : coq_N list; lcontent : coq_N list }
let read_stream (p : string) : int * lrec list =
  let b = read_file p in
  let u32 o = Char.code (Bytes.get b o) lor (Char.code (Bytes.get b (o+1)) lsl 8)
              lor (Char.code (Bytes.get b (o+2)) lsl 16) lor (Char.code (Bytes.get b (o+3)) lsl 24) in
  let u64 o = n_of_hex (String.concat "" (Stdlib.List.init 8 (fun i ->
                Printf.sprintf "%02x" (Char.code (Bytes.get b (o + 7 - i)))))) in
  let pgsz = u32 0 and cnt = u32 4 in
  let pos = ref 8 in
  let out = ref [] in
  for _ = 1 to cnt do
    let o = !pos in
    let pl = u32 (o + 12) in
    out := { lpfn = u64 o; lflags = u32 (o + 8); lpayload = list_of_sub b (o + 16) pl;
             lcontent = list_of_sub b (o + 16 + pl) pgsz } :: !out;
    pos := o + 16 + pl + pgsz
  done;
  (pgsz, Stdlib.List.rev !out)

let lk_layout (c : case) : LkcdSpec.lk_layout =
  { LkcdSpec.ll_be = lkb c "be"; ll_version = lkn c "ver"; ll_mclx = lkn c "mclx"; ll_hdr64 = lkb c "h64";
    ll_page_size = lkn c "pgsz"; ll_compression = lkn c "comp"; ll_uts = lkbytes c "uts";
    ll_data_offset = lkn c "dataoff"; ll_memsize = lkn c "memsize" }

let lk_fuel = nat_of_int 100000

(* ---- s390: image file as for diskdump, every page present ---- *)
let s3_layout (c : case) : S390Spec.s3_layout =
  { S390Spec.s3l_page_size = lkn c "pgsz"; s3l_arch64 = lkb c "a64"; s3l_hdr_size = lkn c "hdrsz";
    s3l_tod = lkn c "tod"; s3l_end_tod = lkn c "endtod"; s3l_version = lkn c "ver"; s3l_cpu_id = lkn c "cpuid" }
let s3_pages (c : case) : coq_N list list =
  Stdlib.List.filter_map (function Some p -> Some p.content | None -> None) (snd (read_image c.img))

let shift_of (pgsz : coq_N) : coq_N =
  let rec go k = if (1 lsl k) >= int_of_n pgsz then k else go (k + 1) in n_of_int (go 0)

let model_case_gen (dump_index : bool) (line : string) : string =
  let c = parse_case line in
  let files = Array.of_list (Stdlib.List.map read_file c.paths) in
  let rd = rd_of_files files in
  match c.fmt with
  | "elf" ->
      (match ElfModel.elf_open rd (nat_of_int (Array.length files)) with
       | Codec.Err st -> "OPEN" ^ status_str st
       | Codec.Ok st0 ->
           (* pointer size and page size as elfdump.c derives them: notes, then the machine *)
           (match ElfGeomModel.elf_geometry rd st0 with
            | Codec.Err e -> "OPEN" ^ status_str e
            | Codec.Ok g ->
           let opt = function Some x -> hex_of_n x | None -> "-" in
           (match g.ElfGeomModel.eg_page_size with
            | None ->
                let r = { geom = Printf.sprintf "G:elf:%d:%s:-:?" (if st0.ElfModel.es_be then 0 else 1)
                                   (opt g.eg_ptr_size);
                          read = (fun _ _ _ _ -> (n_of_int 99, [])) } in
                run_reqs r c.reqs
            | Some pgsz ->
           let st = ref st0 in
           let r = { geom = Printf.sprintf "G:elf:%d:%s:%s:%s" (if st0.ElfModel.es_be then 0 else 1)
                              (opt g.eg_ptr_size) (hex_of_n pgsz)
                              (hex_of_n (ElfModel.elf_max_pfn st0 (shift_of pgsz)));
                     read = (fun z a addr len ->
                       if a <> 'M' && a <> 'V' then (n_of_int 99, [])
                       else begin
                         let ((s, data), st') = ElfModel.elf_read rd pgsz z (a = 'V') !st addr len in
                         st := st'; (s, data) end) } in
           run_reqs r c.reqs)))
  | "lkcd" ->
      let (_, recs) = read_stream c.img in
      let tab = Hashtbl.create 64 in
      Stdlib.List.iter (fun r -> Hashtbl.replace tab (string_of_list r.lpayload) r.lcontent) recs;
      let gunzip payload = Hashtbl.find_opt tab (string_of_list payload) in
      (* the block-level model of the PFN index (Fmt/LkcdIndexModel.v) *)
      let index_dump (st : LkcdIndexModel.kb_state) =
        if not dump_index then "" else begin
          let buf = Buffer.create 256 in
          Buffer.add_string buf (Printf.sprintf "|I:%s:%s:%s:" (hex_of_n st.LkcdIndexModel.kb_last)
                                   (hex_of_n st.kb_end) (hex_of_n st.kb_max_pfn));
          let slots = Stdlib.List.sort (fun (a, _) (b, _) -> compare (int_of_n a) (int_of_n b)) st.kb_tbl in
          Stdlib.List.iter (fun (slot, chain) ->
            Buffer.add_string buf (Printf.sprintf "s%s[" (hex_of_n slot));
            Stdlib.List.iter (fun b ->
              Buffer.add_string buf (Printf.sprintf "%s@%s" (hex_of_n b.LkcdIndexModel.b_idx3) (hex_of_n b.b_filepos));
              Stdlib.List.iter (fun o -> Buffer.add_string buf ("," ^ hex_of_n o)) b.b_offs;
              Buffer.add_char buf ';') chain;
            Buffer.add_char buf ']') slots;
          Buffer.contents buf
        end in
      (match LkcdIndexModel.kb_open rd (nat_of_int (Array.length files)) with
       | Codec.Err st -> "OPEN" ^ status_str st
       | Codec.Ok st0 ->
           let st = ref st0 in
           String.concat " " (Stdlib.List.map (fun t ->
             if t = "G" then begin
               let (r, st') = LkcdIndexModel.kb_scan_max_pfn rd lk_fuel !st in
               st := st';
               (match r with
               | Codec.Ok m -> Printf.sprintf "G:lkcd:%d:%s:%s:%s" (if st0.LkcdIndexModel.kb_be then 0 else 1)
                                 (lk c "ptr") (hex_of_n st0.kb_page_size) (hex_of_n m)
               | Codec.Err e -> Printf.sprintf "G:lkcd:%d:%s:%s:!%s" (if st0.LkcdIndexModel.kb_be then 0 else 1)
                                 (lk c "ptr") (hex_of_n st0.kb_page_size) (status_str e))
               ^ index_dump !st
             end
             else if t = "Z0" || t = "Z1" then "Z"
             else if t.[0] = 'R' then begin
               match split_on ':' (String.sub t 1 (String.length t - 1)) with
               | [a; addr; len] when a = "M" ->
                   let ((s, data), st') = LkcdIndexModel.kb_read rd gunzip lk_fuel !st (n_of_hex addr) (n_of_hex len) in
                   st := st';
                   Printf.sprintf "R%s:%x:%x" (status_str s) (Stdlib.List.length data) (fnv1a data) ^ index_dump !st
               | _ -> "?"
             end else "?") c.reqs))
  | "s390" ->
      (match S390Model.s3_open rd (nat_of_int (Array.length files)) with
       | Codec.Err st -> "OPEN" ^ status_str st
       | Codec.Ok st ->
           let r = { geom = geom_str "s390dump" true st.S390Model.s3_ptr_size st.s3_page_size st.s3_max_pfn;
                     read = (fun _ a addr len ->
                       if a <> 'M' then (n_of_int 99, []) else S390Model.s3_read rd st addr len) } in
           run_reqs r c.reqs)
  | "sadump" ->
      (match SadumpModel.sd_open rd (nat_of_int (Array.length files)) with
       | Codec.Err st -> "OPEN" ^ status_str st
       | Codec.Ok st ->
           let r = { geom = geom_str "sadump" false st.SadumpModel.sd_ptr_size (n_of_int 4096) st.sd_max_pfn;
                     read = (fun z a addr len ->
                       if a <> 'M' then (n_of_int 99, [])
                       else SadumpModel.sd_read rd st z addr len) } in
           run_reqs r c.reqs)
  | _ ->
  let (_, img) = read_image c.img in
  let dec = oracle_of img in
  match c.fmt with
  | "dd" ->
      (match DiskdumpModel.dd_open rd (nat_of_int (Array.length files)) with
       | Codec.Err st -> "OPEN" ^ status_str st
       | Codec.Ok st ->
           let r = { geom = geom_str "diskdump" st.DiskdumpModel.dd_be st.dd_ptr_size st.dd_page_size st.dd_max_pfn;
                     read = (fun z a addr len ->
                       if a <> 'M' then (n_of_int 99, [])
                       else DiskdumpModel.dd_read rd dec st z addr len) } in
           run_reqs r c.reqs)
  | f -> failwith ("unknown format " ^ f)

let enc_case (line : string) : string =
  let c = parse_case line in
  match c.fmt with
  | "elf" ->
      let out = ElfSpec.encode_elf (elf_layout c) (read_segs c.img) in
      Printf.sprintf "ok %d" (write_file (Stdlib.List.hd c.paths) out)
  | "lkcd" ->
      let (_, recs) = read_stream c.img in
      let stream = Stdlib.List.map (fun r ->
        { LkcdSpec.lp_pfn = r.lpfn; lp_flags = n_of_int r.lflags; lp_payload = r.lpayload }) recs in
      let out = LkcdSpec.encode_lkcd (lk_layout c) stream in
      Printf.sprintf "ok %d" (write_file (Stdlib.List.hd c.paths) out)
  | "s390" ->
      let out = S390Spec.encode_s390 (s3_layout c) (s3_pages c) in
      Printf.sprintf "ok %d" (write_file (Stdlib.List.hd c.paths) out)
  | "sadump" ->
      let outs = SadumpSpec.encode_sadump (sd_layout c) (sd_image c) in
      (* file i holds disk order[i] *)
      let order = Stdlib.List.map int_of_string (dotted c "order") in
      let sizes = Stdlib.List.map2 (fun path d -> write_file path (Stdlib.List.nth outs d)) c.paths order in
      "ok " ^ String.concat "," (Stdlib.List.map string_of_int sizes)
  | _ ->
  let (_, img) = read_image c.img in
  match c.fmt with
  | "dd" ->
      let pages = Stdlib.List.map (function
        | Some p -> Some { DiskdumpSpec.dp_flags = n_of_int p.flags; dp_payload = p.payload }
        | None -> None) img in
      let l0 = dd_layout c in
      (match (try Stdlib.List.assoc "splits" c.lay with Not_found -> "") with
       | "" ->
           let out = DiskdumpSpec.encode_dd l0 pages in
           Printf.sprintf "ok %d" (write_file (Stdlib.List.hd c.paths) out)
       | sp ->
           (* one file per window "start-end", in the order of the paths *)
           let wins = Stdlib.List.map (fun w -> match split_on '-' w with
             | [a; b] -> (n_of_hex a, n_of_hex b) | _ -> failwith "bad window") (split_on '.' sp) in
           let outs = DiskdumpSpec.encode_dd_set l0 wins pages in
           let sizes = Stdlib.List.map2 write_file c.paths outs in
           "ok " ^ String.concat "," (Stdlib.List.map string_of_int sizes))
  | f -> failwith ("unknown format " ^ f)

let spec_case (line : string) : string =
  let c = parse_case line in
  match c.fmt with
  | "elf" ->
      let l = elf_layout c and segs = read_segs c.img in
      let pg = lkn c "pgsz" in
      let getp z virt () addr = (ElfSpec.spec_elf_page segs pg z virt addr, ()) in
      let r = { geom = Printf.sprintf "G:elf:%d:%s:%s:%s" (if l.ElfSpec.el_be then 0 else 1) (lk c "ptr")
                         (hex_of_n pg) (hex_of_n (ElfSpec.spec_elf_max_pfn segs pg));
                read = (fun z a addr len ->
                  if a <> 'M' && a <> 'V' then (n_of_int 99, [])
                  else let ((st, data), ()) = Codec.read_range (getp z (a = 'V')) pg () addr len in (st, data)) } in
      run_reqs r c.reqs
  | "lkcd" ->
      let l = lk_layout c in
      let (_, recs) = read_stream c.img in
      let img = Stdlib.List.map (fun r -> (r.lpfn, r.lcontent)) recs in
      let pg = l.LkcdSpec.ll_page_size in
      let getp _z () addr = (LkcdSpec.spec_lkcd_page img (fst (BinNat.N.div_eucl addr pg)), ()) in
      let r = { geom = Printf.sprintf "G:lkcd:%d:%s:%s:%s" (if l.ll_be then 0 else 1) (lk c "ptr")
                         (hex_of_n pg) (hex_of_n (LkcdSpec.spec_lkcd_max_pfn img));
                read = (fun z a addr len ->
                  if a <> 'M' then (n_of_int 99, [])
                  else let ((st, data), ()) = Codec.read_range (getp z) pg () addr len in (st, data)) } in
      run_reqs r c.reqs
  | "s390" ->
      let l = s3_layout c and pages = s3_pages c in
      let pg = l.S390Spec.s3l_page_size in
      let getp () addr = (S390Spec.spec_s390_page pages (fst (BinNat.N.div_eucl addr pg)), ()) in
      let r = { geom = geom_str "s390dump" true (n_of_int (if l.s3l_arch64 then 8 else 4)) pg
                         (n_of_int (Stdlib.List.length pages));
                read = (fun _ a addr len ->
                  if a <> 'M' then (n_of_int 99, [])
                  else let ((st, data), ()) = Codec.read_range getp pg () addr len in (st, data)) } in
      run_reqs r c.reqs
  | "sadump" ->
      let l = sd_layout c and simg = sd_image c in
      let pg = n_of_int 4096 in
      let lma = Stdlib.List.exists (fun b -> b) l.SadumpSpec.sl_lma in
      let maxpfn = l.sl_max_mapnr in
      let getp z () addr = (ImageSpec.spec_read_page simg pg maxpfn z (fst (BinNat.N.div_eucl addr pg)), ()) in
      let r = { geom = geom_str "sadump" false (n_of_int (if lma then 8 else 4)) pg maxpfn;
                read = (fun z a addr len ->
                  if a <> 'M' then (n_of_int 99, [])
                  else let ((st, data), ()) = Codec.read_range (getp z) pg () addr len in (st, data)) } in
      run_reqs r c.reqs
  | _ ->
  let (pgsz, img) = read_image c.img in
  let simg = Stdlib.List.map (function Some p -> Some p.content | None -> None) img in
  match c.fmt with
  | "dd" ->
      let l = dd_layout c in
      let pg = l.DiskdumpSpec.dl_page_size and maxpfn = l.dl_max_mapnr in
      let getp z () addr =
        (ImageSpec.spec_read_page simg pg maxpfn z (fst (BinNat.N.div_eucl addr pg)), ()) in
      let r = { geom = geom_str "diskdump" l.dl_be (n_of_int (if l.dl_64 then 8 else 4)) pg maxpfn;
                read = (fun z a addr len ->
                  if a <> 'M' then (n_of_int 99, [])
                  else let ((st, data), ()) = Codec.read_range (getp z) pg () addr len in (st, data)) } in
      ignore pgsz; run_reqs r c.reqs
  | f -> failwith ("unknown format " ^ f)

let model_case = model_case_gen false
let engines = [ "fmt", model_case; "fmt-lkidx", model_case_gen true; "fmt-enc", enc_case; "fmt-spec", spec_case ]
