(* engine "pfn" (C07): see harness/pfn_drv.c for the case syntax.
   engine "pfn-spec": the same line followed by " # <implementation's output>";
   prints "ok" or the first contradiction with PfnSpec. *)
open Util
open BitmapModel
open RegionModel

let bytes_of_hex (s : string) : BinNums.coq_N list =
  if s = "-" then [] else
  Stdlib.List.init (String.length s / 2) (fun i -> n_of_hex (String.sub s (2 * i) 2))

let hex2 (b : BinNums.coq_N) : string = Printf.sprintf "%02x" (int_of_n b)
let hex_of_bytes (l : BinNums.coq_N list) : string =
  if l = [] then "-" else String.concat "" (Stdlib.List.map hex2 l)

let split_bar (line : string) : string * string =
  match String.index_opt line '|' with
  | Some i -> (String.trim (String.sub line 0 i),
               String.trim (String.sub line (i + 1) (String.length line - i - 1)))
  | None -> (String.trim line, "")

type mapdesc = { st : BinNums.coq_N; en : BinNums.coq_N; msb : bool; al : BinNums.coq_N;
                 off : BinNums.coq_N; esz : BinNums.coq_N; bm : BinNums.coq_N list }

let parse_map (s : string) : mapdesc =
  match split_on ':' s with
  | [st; en; m; al; off; esz; bm] ->
      { st = n_of_hex st; en = n_of_hex en; msb = (m = "m"); al = n_of_hex al;
        off = n_of_hex off; esz = n_of_hex esz; bm = bytes_of_hex bm }
  | _ -> failwith ("bad map " ^ s)

let show_regions (rs : region list) : string =
  if rs = [] then "-" else
  String.concat "," (Stdlib.List.map (fun r ->
    hex_of_n r.g_pfn ^ ":" ^ hex_of_n r.g_cnt ^ ":" ^ hex_of_n r.g_pos) rs)

let show_maps (ms : fmap list) : string =
  String.concat ";" (Stdlib.List.map (fun m -> show_regions m.regions) ms)

let oracle_of (failcall : int) : bool list =
  if failcall = 0 then [] else Stdlib.List.init failcall (fun i -> i <> failcall - 1)

let show_res f = function Val a -> f a | Oob -> "OOB" | Fuel -> "FUEL"

let run_case (line : string) : string =
  let (hd, tl) = split_bar line in
  match Util.words hd with
  | ["K"; fn; al; bm] ->
      let bm = bytes_of_hex bm and al = n_of_hex al in
      let f = match fn with
        | "cl" -> skip_clear false | "cm" -> skip_clear true
        | "sl" -> skip_set true false | "sm" -> skip_set true true
        | _ -> failwith "bad fn" in
      "K " ^ String.concat "," (Stdlib.List.map (fun p -> hex_of_n (f al bm (n_of_hex p))) (Util.words tl))
  | ["B"; op; s; e; buf] ->
      let r = (if op = "s" then set_bits else clear_bits) (bytes_of_hex buf) (n_of_hex s) (n_of_hex e) in
      (match r with Some b -> "B " ^ hex_of_bytes b | None -> "B OOB")
  | "M" :: failcall :: rest ->
      let descs = match rest with [] -> [] | m :: _ -> Stdlib.List.map parse_map (split_on ';' m) in
      let rec build ds orc acc = match ds with
        | [] -> Ok (Stdlib.List.rev acc)
        | d :: t ->
            (match regions_from_bitmap true d.msb d.al d.bm d.st d.en d.off d.esz [] orc with
             | (ROk rs, o) -> build t o ({ regions = rs; start_pfn = d.st; end_pfn = d.en } :: acc)
             | (RNoMem rs, _) ->
                 Error ("E " ^ show_maps (Stdlib.List.rev ({ regions = rs; start_pfn = d.st; end_pfn = d.en } :: acc)))
             | (ROob, _) -> Error "OOB-bitmap"
             | (RFuel, _) -> Error "FUEL") in
      (match build descs (oracle_of (int_of_string ("0x" ^ failcall))) [] with
       | Error s -> s
       | Ok ms ->
           let ms = sort_maps ms in
           let op (s : string) : string = match split_on ':' s with
             | ["r"; mi; p] ->
                 (match Stdlib.List.nth_opt ms (int_of_string ("0x" ^ mi)) with
                  | None -> "OOB"
                  | Some m -> show_res (function Some i -> hex_of_n i | None -> "-1") (find_region m (n_of_hex p)))
             | ["s"; i] ->
                 show_res (function Some p -> "1:" ^ hex_of_n p | None -> "0") (find_mapped_pfn true ms (n_of_hex i))
             | ["c"; i] -> show_res hex_of_n (find_unmapped_pfn true ms (n_of_hex i))
             | ["g"; f; l; fill] ->
                 let f = n_of_hex f and l = n_of_hex l in
                 let n = (int_of_n (BinNat.N.shiftr (Wrap64.wsub l f) (n_of_int 3))) + 1 in
                 let buf = Stdlib.List.init n (fun _ -> n_of_hex fill) in
                 show_res hex_of_bytes (get_pfn_map_bits ms f l buf)
             | _ -> "?" in
           "M " ^ show_maps ms ^ " |" ^ String.concat "" (Stdlib.List.map (fun o -> " " ^ op o) (Util.words tl)))
  | _ -> failwith "bad case"

(* ---- judged by the spec -------------------------------------------------- *)
open PfnSpec

let nmax a b = if BinNat.N.leb a b then b else a

let spec_case (line : string) : string =
  let (case, impl) = match String.index_opt line '#' with
    | Some i -> (String.trim (String.sub line 0 i), String.trim (String.sub line (i + 1) (String.length line - i - 1)))
    | None -> failwith "no implementation output" in
  let (hd, tl) = split_bar case in
  match Util.words hd with
  | ["K"; fn; _; bm] ->
      let bm = bytes_of_hex bm in
      let msb = (fn.[1] = 'm') and want = (fn.[0] = 'c') in
      let size8 = n_of_int (8 * Stdlib.List.length bm) in
      let answers = split_on ',' (String.sub impl 2 (String.length impl - 2)) in
      let ps = Util.words tl in
      if Stdlib.List.length ps <> Stdlib.List.length answers then "wrong number of answers" else
      let bad = Stdlib.List.filter (fun (p, a) ->
        let p = n_of_hex p and r = n_of_hex a in
        if BinNat.N.leb size8 p && not (BinNat.N.ltb (BinNat.N.shiftr p (n_of_int 3)) (n_of_int (Stdlib.List.length bm)))
        then r <> p
        else not (least_ok (bit_of msb bm) want p size8 r)) (Stdlib.List.combine ps answers) in
      (match bad with [] -> "ok"
       | (p, a) :: _ -> Printf.sprintf "skip_%s from %s returns %s: not the least index with the wanted bit" fn p a)
  | ["B"; op; s; e; buf] ->
      if impl = "B OOB" then "store outside the buffer" else
      let old = bytes_of_hex buf and res = bytes_of_hex (String.sub impl 2 (String.length impl - 2)) in
      let s = n_of_hex s and e = n_of_hex e in
      if Stdlib.List.length old <> Stdlib.List.length res then "length changed" else
      let ok = all_range (nat_of_int (8 * Stdlib.List.length old)) BinNums.N0 (fun q ->
        let inside = BinNat.N.leb s q && BinNat.N.leb q e in
        bit_of false res q = (if inside then op = "s" else bit_of false old q)) in
      if ok then "ok" else "bits outside [start,end] changed or inside not " ^ (if op = "s" then "set" else "cleared")
  | "M" :: failcall :: rest ->
      if String.length impl > 0 && impl.[0] = 'E' then
        (if failcall = "0" then "allocation failure reported although none was injected" else "ok")
      else begin
        let descs = match rest with [] -> [] | m :: _ -> Stdlib.List.map parse_map (split_on ';' m) in
        let descs = Stdlib.List.stable_sort (fun a b -> compare (int_of_n a.en, int_of_n a.st) (int_of_n b.en, int_of_n b.st)) descs in
        let srcs = Stdlib.List.map (fun d -> { s_start = d.st; s_end = d.en; s_msb0 = d.msb; s_bitmap = d.bm }) descs in
        let (mapstr, ansstr) = split_bar (String.sub impl 2 (String.length impl - 2)) in
        let parse_regions s = if s = "-" || s = "" then [] else
          Stdlib.List.map (fun r -> match split_on ':' r with
            | [p; c; o] -> ((n_of_hex p, n_of_hex c), n_of_hex o) | _ -> failwith "bad region") (split_on ',' s) in
        let regs = if descs = [] then [] else Stdlib.List.map parse_regions (split_on ';' mapstr) in
        if Stdlib.List.length regs <> Stdlib.List.length descs then "wrong number of maps" else
        let badmap = Stdlib.List.filter (fun ((d, s), rs) -> not (regions_ok s d.off d.esz rs))
            (Stdlib.List.combine (Stdlib.List.combine descs srcs) regs) in
        if badmap <> [] then
          (let ((d, _), _) = Stdlib.List.hd badmap in
           "regions of the file with window [" ^ hex_of_n d.st ^ "," ^ hex_of_n d.en ^ ") are not the maximal runs of set bits")
        else
        let limit = Stdlib.List.fold_left (fun a d -> nmax a d.en) BinNums.N0 descs in
        let pres = present srcs in
        let ops = Util.words tl and answers = Util.words ansstr in
        if Stdlib.List.length ops <> Stdlib.List.length answers then "wrong number of answers" else
        let judge (o, a) = match split_on ':' o with
          | ["r"; mi; p] ->
              if int_of_string ("0x" ^ mi) >= Stdlib.List.length regs then None else
              let rs = Stdlib.List.nth regs (int_of_string ("0x" ^ mi)) and p = n_of_hex p in
              let rec first i = function
                | [] -> -1
                | ((rp, c), _) :: t -> if BinNat.N.ltb p (BinNat.N.add rp c) then i else first (i + 1) t in
              let want = first 0 rs in
              let got = if a = "-1" then -1 else int_of_string ("0x" ^ a) in
              if want = got then None else Some (Printf.sprintf "find_pfn_region(%s) = %s, expected %d" (hex_of_n p) a want)
          | ["s"; i] ->
              let i = n_of_hex i in
              let lim = nmax limit i in
              (match split_on ':' a with
               | ["0"] -> if least_ok pres true i lim lim && not (pres lim) then None
                          else Some (Printf.sprintf "find-next-set(%s) says none but a later frame is stored" (hex_of_n i))
               | ["1"; q] -> let q = n_of_hex q in
                   if pres q && least_ok pres true i lim q then None
                   else Some (Printf.sprintf "find-next-set(%s) = %s is not the least stored frame" (hex_of_n i) (hex_of_n q))
               | _ -> Some ("bad answer " ^ a))
          | ["c"; i] ->
              let i = n_of_hex i in
              let lim = nmax limit i in
              let q = n_of_hex a in
              if least_ok pres false i lim q && not (pres q) then None
              else Some (Printf.sprintf "find-next-clear(%s) = %s is not the least frame that is not stored" (hex_of_n i) a)
          | ["g"; f; l; _] ->
              if a = "OOB" then Some "store outside the caller's buffer" else
              if raw_ok pres (n_of_hex f) (n_of_hex l) (bytes_of_hex a) then None
              else Some (Printf.sprintf "get_bits(%s..%s) = %s differs from the stored-frame set" f l a)
          | _ -> Some "bad op" in
        match Stdlib.List.filter_map judge (Stdlib.List.combine ops answers) with
        | [] -> "ok" | m :: _ -> m
      end
  | _ -> failwith "bad spec line"

let engines = [ "pfn", run_case; "pfn-spec", spec_case ]
