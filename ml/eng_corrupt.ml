(* engine "corrupt" (C03): parsing and printing only.
     R <cap> <hex-src>      -> "R <ret> <len> <hex of the cap-byte buffer>"  (model of uncompress_rle)
   engine "corrupt-spec": "R <cap> <hex-src> | <impl line>" judged by RleSpec.rle_spec. *)
open Util

let byte_table : BinNums.coq_N array = Array.init 256 n_of_int

let bytes_of_hex (s : string) : BinNums.coq_N list =
  if s = "-" then [] else begin
    let n = String.length s / 2 in
    let rec go i acc = if i < 0 then acc
      else go (i - 1) (byte_table.(hexval s.[2*i] * 16 + hexval s.[2*i+1]) :: acc) in
    go (n - 1) []
  end

let hex_of_bytes (l : BinNums.coq_N list) : string =
  let b = Buffer.create 64 in
  Stdlib.List.iter (fun x -> Buffer.add_string b (Printf.sprintf "%02x" (int_of_n x))) l;
  Buffer.contents b

let pad_buffer (cap : int) (written : BinNums.coq_N list) : string =
  if cap = 0 then "-" else
  let w = hex_of_bytes written in
  w ^ String.concat "" (Stdlib.List.init (max 0 (cap - String.length w / 2)) (fun _ -> "ee"))

let rle_line (cap : string) (src : string) : string =
  let capi = int_of_n (n_of_hex cap) in
  match RleModel.uncompress_rle (bytes_of_hex src) (n_of_hex cap) with
  | RleModel.RleDone out ->
      Printf.sprintf "R 0 %x %s" (Stdlib.List.length out) (pad_buffer capi out)
  | RleModel.RleErr out -> Printf.sprintf "R -1 %x %s" capi (pad_buffer capi out)
  | RleModel.RleOOBRead -> "R OOB-READ"
  | RleModel.RleOOBWrite -> "R OOB-WRITE"
  | RleModel.RleFuel -> "R OUT-OF-FUEL"

let run_case (line : string) : string =
  match words line with
  | ["R"; cap; src] -> rle_line cap src
  | ["R"; cap] -> rle_line cap "-"
  | _ -> "SKIP"

(* implementation judged by the spec: "R cap src | R ret len buf" *)
let spec_case (line : string) : string =
  match Stdlib.List.map String.trim (split_on '|' line) with
  | [case; impl] ->
      (match words case, words impl with
       | ("R" :: cap :: rest), ["R"; ret; len; buf] ->
           let src = (match rest with s :: _ -> s | [] -> "-") in
           let capi = int_of_n (n_of_hex cap) in
           (match RleSpec.rle_spec (bytes_of_hex src) (n_of_hex cap) with
            | Some out ->
                if ret <> "0" then "rle: valid stream that fits the buffer rejected"
                else if int_of_string ("0x" ^ len) <> Stdlib.List.length out then "rle: wrong output length " ^ len
                else if buf <> pad_buffer capi out then "rle: wrong output bytes or a write beyond the reported length"
                else "ok"
            | None ->
                if ret <> "-1" then "rle: invalid or oversized stream accepted"
                else if int_of_string ("0x" ^ len) <> capi then "rle: length changed on error"
                else if capi > 0 && String.length buf <> 2 * capi then "rle: buffer dump has wrong size"
                else "ok")
       | _ -> "spec: unparsable implementation line: " ^ impl)
  | _ -> failwith "bad spec line"

let engines = [ "corrupt", run_case; "corrupt-spec", spec_case ]
