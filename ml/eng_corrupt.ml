(* engine "corrupt" (C03): parsing and printing only.
     R <cap> <hex-src>      -> "R <ret> <len> <hex of the cap-byte buffer>"  (model of uncompress_rle)
   engine "corrupt-spec": "R <cap> <hex-src> | <impl line>" judged by RleSpec.rle_spec. *)
open Util

let byte_table : BinNums.coq_N array = Array.init 256 n_of_int

let bytes_of_hex (s : string) : BinNums.coq_N list =
  if s = "-" then [] else begin
    let n = String.length s / 2 in
    let rec go i acc = if i < 0 then acc
      else go (i - 1) (byte_table.(hexval s.[2*i] * 16 + hexval s.[2*i+1]) :: acc) in
    go (n - 1) []
  end

let hex_of_bytes (l : BinNums.coq_N list) : string =
  let b = Buffer.create 64 in
  Stdlib.List.iter (fun x -> Buffer.add_string b (Printf.sprintf "%02x" (int_of_n x))) l;
  Buffer.contents b

let pad_buffer (cap : int) (written : BinNums.coq_N list) : string =
  if cap = 0 then "-" else
  let w = hex_of_bytes written in
  w ^ String.concat "" (Stdlib.List.init (max 0 (cap - String.length w / 2)) (fun _ -> "ee"))

let rle_line (cap : string) (src : string) : string =
  let capi = int_of_n (n_of_hex cap) in
  match RleModel.uncompress_rle (bytes_of_hex src) (n_of_hex cap) with
  | RleModel.RleDone out ->
      Printf.sprintf "R 0 %x %s" (Stdlib.List.length out) (pad_buffer capi out)
  | RleModel.RleErr out -> Printf.sprintf "R -1 %x %s" capi (pad_buffer capi out)
  | RleModel.RleOOBRead -> "R OOB-READ"
  | RleModel.RleOOBWrite -> "R OOB-WRITE"
  | RleModel.RleFuel -> "R OUT-OF-FUEL"

(* ---- file cases: "F <opts> <spec> ..." with <spec> = <seed>[@trunc][+off:hex]...
   The model gets exactly the bytes the C driver writes to its temporary file. *)
let read_file (path : string) : Bytes.t =
  let ic = open_in_bin path in
  let n = in_channel_length ic in
  let b = Bytes.create n in
  really_input ic b 0 n; close_in ic; b

let seed_cache : (string, Bytes.t) Hashtbl.t = Hashtbl.create 31

let build_spec (spec : string) : Bytes.t =
  let parts = split_on '+' spec in
  let head = Stdlib.List.hd parts and patches = Stdlib.List.tl parts in
  let path, trunc = match split_on '@' head with
    | [p; t] -> p, Some (int_of_string ("0x" ^ t))
    | _ -> head, None in
  let seed = (match Hashtbl.find_opt seed_cache path with
    | Some b -> b
    | None -> let b = read_file path in Hashtbl.add seed_cache path b; b) in
  let data = ref (Bytes.copy seed) in
  let len = ref (Bytes.length seed) in
  Stdlib.List.iter (fun p ->
    match split_on ':' p with
    | [off; hex] ->
        let off = int_of_string ("0x" ^ off) and n = String.length hex / 2 in
        if off + n > Bytes.length !data then begin
          let nb = Bytes.make (off + n) '\000' in
          Bytes.blit !data 0 nb 0 (Bytes.length !data); data := nb end;
        for i = 0 to n - 1 do
          Bytes.set !data (off + i) (Char.chr (hexval hex.[2*i] * 16 + hexval hex.[2*i+1]))
        done;
        if off + n > !len then len := off + n
    | _ -> ()) patches;
  (match trunc with Some t when t < !len -> len := t | _ -> ());
  Bytes.sub !data 0 !len

(* the model's file: byte at every offset, zero beyond the end *)
let small_int_of_n (n : BinNums.coq_N) : int =       (* -1 if it does not fit 40 bits *)
  let rec go p depth = if depth > 40 then -1 else
    match p with
    | BinNums.Coq_xH -> 1
    | BinNums.Coq_xO q -> let r = go q (depth + 1) in if r < 0 then -1 else 2 * r
    | BinNums.Coq_xI q -> let r = go q (depth + 1) in if r < 0 then -1 else 2 * r + 1 in
  match n with BinNums.N0 -> 0 | BinNums.Npos p -> go p 0

(* The model is run on corrupt counts, too (e.g. 40 million declared section headers); the tie
   gives up on a case ("P ?") after this many byte reads instead of waiting for minutes. *)
exception Budget
let read_budget = ref 0
let budget_per_case = 2_000_000

let file_of_bytes (b : Bytes.t) : BinNums.coq_N -> BinNums.coq_N =
  let len = Bytes.length b in
  fun (n : BinNums.coq_N) ->
    decr read_budget;
    if !read_budget < 0 then raise Budget;
    let i = small_int_of_n n in
    if i >= 0 && i < len then byte_table.(Char.code (Bytes.get b i)) else BinNums.N0

let alim_default = n_of_hex "40000000"  (* 1 GiB: ASAN max_allocation_size_mb=1024 *)
let alim_cur = ref alim_default         (* per case: option A=<hex> (the big-allocation pass) *)

let us s = String.map (fun c -> if c = ' ' then '_' else c) s
let dec n = Printf.sprintf "%d" (int_of_n n)
(* unsigned decimal of an N that may exceed max_int *)
let dec_n (n : BinNums.coq_N) : string =
  let h = hex_of_n n in
  if String.length h <= 15 then string_of_int (int_of_string ("0x" ^ h))
  else Printf.sprintf "%Lu" (Int64.of_string ("0x" ^ h))

let status_name = function
  | Bounded.KOK -> "OK" | Bounded.KSYSTEM -> "SYSTEM" | Bounded.KNOTIMPL -> "NOTIMPL"
  | Bounded.KNODATA -> "NODATA" | Bounded.KCORRUPT -> "CORRUPT" | Bounded.KINVALID -> "INVALID"
  | Bounded.KNOKEY -> "NOKEY" | Bounded.KEOF -> "EOF" | Bounded.KBUSY -> "BUSY"
  | Bounded.KADDRXLAT -> "ADDRXLAT" | Bounded.KNOPROBE -> "NOPROBE"

(* the message the library prints for a stage (prefix; "*" = anything may follow) *)
let stage_msg (st : Bounded.stage) : string option =
  match st with
  | Bounded.StDataFmt -> Some "Unsupported ELF data format:"
  | Bounded.StClass -> Some "Unsupported ELF class:"
  | Bounded.StHdrSize (sect, sz) ->
      Some (Printf.sprintf "Invalid ELF %s header entry size: %s" (if sect then "section" else "program") (dec sz))
  | Bounded.StHdrRead (sect, idx, off) ->
      Some (Printf.sprintf "Cannot read ELF %s header #%s at %s" (if sect then "section" else "program") (dec_n idx) (dec_n off))
  | Bounded.StHdrExtent (sect, num, off) ->
      Some (Printf.sprintf "Invalid ELF %s header table (%s entries at %s)" (if sect then "section" else "program") (dec_n num) (dec_n off))
  | Bounded.StTooMany (sect, n) ->
      Some (Printf.sprintf "Too many %s headers (%s)" (if sect then "section" else "program") (dec_n n))
  | Bounded.StAlloc -> Some "Cannot allocate"
  | Bounded.StNoContent -> Some "No content found"
  | Bounded.StNotesRead off -> Some (Printf.sprintf "Cannot read ELF notes at %s" (dec_n off))
  | Bounded.StNotesExtent -> Some "ELF notes extends beyond end of file"
  | Bounded.StStrtab -> None
  | _ -> None

let ub_name (r : 'a Bounded.res) : string =
  match r with
  | Bounded.OOB -> "MODEL-OOB" | Bounded.DivZero -> "MODEL-DIVZERO" | Bounded.BadShift -> "MODEL-BADSHIFT"
  | Bounded.NullCall -> "MODEL-NULLCALL" | Bounded.OutOfFuel -> "MODEL-OUT-OF-FUEL" | _ -> "?"

let chunk_bytes (c : Bounded.chunk) (maxn : int) : string =
  let n = min maxn (int_of_n c.Bounded.clen) in
  let b = Buffer.create 64 in
  for i = 0 to n - 1 do
    match Bounded.cget c (n_of_int i) with
    | Some v -> Buffer.add_string b (Printf.sprintf "%02x" (int_of_n v))
    | None -> ()
  done;
  Buffer.contents b

let elf_forbidden = "!err=file_#0:_Cannot_read_ELF_ !err=file_#0:_Invalid_ELF_ !err=file_#0:_No_content !err=file_#0:_ELF_notes_extends " ^
                    "!err=file_#0:_Too_many_ !err=file_#0:_Unsupported_ELF_"

let elf_ok_tokens (r : PElfModel.elf_result) : string =
  (* ERASEINFO: the descriptor of the last such note of the first walk, if the open succeeds *)
  let erase = ref None and unknown = ref false and vmci = ref false in
  Stdlib.List.iter (fun n ->
    match NotesModel.noarch_note n with
    | Bounded.Ok NotesModel.NaEraseinfo -> erase := Some n.NotesModel.n_desc
    | Bounded.Ok NotesModel.NaVmcoreinfo | Bounded.Ok NotesModel.NaVmcoreinfoXen -> vmci := true
    | Bounded.Ok _ -> ()
    | _ -> unknown := true) r.PElfModel.er_notes;
  let t = r.PElfModel.er_tables in
  let has_strtab = (match t.PElfModel.et_strtab with Some _ -> true | None -> false) in
  let e = if !unknown then " MODEL-OOB-IN-NOTE-NAME"
    else if has_strtab then ""
    else (match !erase with
      | Some c -> Printf.sprintf " ?open=OK:erase=%x:%s" (int_of_n c.Bounded.clen) (chunk_bytes c 64)
      | None -> " ?open=OK:!erase=") in
  (* a blob attribute can only fail to be set for a note that do_notes hands to the callback *)
  let nb = if has_strtab then "" else
    (if !vmci then "" else " !err=file_#0:_Cannot_set_VMCOREINFO") ^
    (match !erase with None -> " !err=file_#0:_Cannot_set_ERASEINFO" | Some _ -> "") in
  elf_forbidden ^ (if has_strtab then "" else " ?open=OK:fmt=elf") ^ nb ^ e

(* message prefix (after "file #0: ") for the stages of the other probes *)
let other_msg (stg : Bounded.stage) : string option =
  match stg with
  | Bounded.StFlatRead pos -> Some (Printf.sprintf "Cannot rearrange file #0: Cannot read flattened header at %s" (dec_n pos))
  | Bounded.StFlatOffset pos -> Some "Cannot rearrange file #0: Wrong flattened offset"
  | Bounded.StFlatSize pos -> Some "Cannot rearrange file #0: Wrong flattened segment size"
  | Bounded.StFlatType -> Some "Unknown flattened type:"
  | Bounded.StFlatVersion -> Some "Unknown flattened version:"
  | Bounded.StSubHdr -> Some "file #0: Invalid sub-header size"
  | Bounded.StOther n ->
      (match int_of_n n with
       | 0 -> Some "Unknown file format"
       | 1 -> Some "Invalid diskdump header content"
       | 2 -> Some "file #0: Invalid header version"
       | 10 -> None
       | 11 -> Some "Unsupported LKCD version:"
       | 20 -> Some "End marker not found"
       | 21 -> Some "Unsupported dump architecture:"
       | 22 -> Some "Cannot read end marker at"
       | _ -> None)
  | Bounded.StPageSize _ -> Some "Invalid page s"
  | _ -> stage_msg stg

let predict_open (f : BinNums.coq_N -> BinNums.coq_N) (flen : int) : string =
  match ProbeModel.open_dump true !alim_cur f (n_of_int flen) with
  | Bounded.Err (Bounded.KNOPROBE, _) -> "P MODEL-NOPROBE-ESCAPED"
  | Bounded.Err (st, stg) ->
      let m = (match other_msg stg with Some m -> " err=file_#0:_" ^ us m ^ "*" | None -> "") in
      "P open=" ^ status_name st ^ m
  | Bounded.Ok (ProbeModel.OiFlat _) -> "P !err=file_#0:_Cannot_rearrange !err=file_#0:_Unknown_flattened"
  | Bounded.Ok (ProbeModel.OiProbe p) ->
      (match p with
       | ProbeModel.PoElf r -> "P " ^ elf_ok_tokens r
       | ProbeModel.PoDiskdump (_, _, l) ->
           Printf.sprintf "P ?open=OK:fmt=diskdump ?open=OK:ps=OK:%s"
             (hex_of_n l.SizesModel.dl_bs)
       | ProbeModel.PoLkcd (_, ps) -> Printf.sprintf "P open=OK fmt=lkcd ps=OK:%s" (hex_of_n ps)
       | ProbeModel.PoS390 ps -> Printf.sprintf "P open=OK fmt=s390dump ps=OK:%s" (hex_of_n ps)
       | ProbeModel.PoBeyond -> "P ?")
  | r -> "P " ^ ub_name r

let predict_file (opts : string) (specs : string list) : string =
  alim_cur := alim_default;
  Stdlib.List.iter (fun o ->
    if String.length o > 2 && String.sub o 0 2 = "A=" then
      alim_cur := n_of_hex (String.sub o 2 (String.length o - 2))) (split_on ',' opts);
  match specs with
  | [spec] ->
      let b = build_spec spec in
      read_budget := budget_per_case;
      (try predict_open (file_of_bytes b) (Bytes.length b)
       with Budget -> "P ? model-budget-exceeded" | Stack_overflow -> "P ? model-stack-exhausted")
  | _ -> "P ?"

(* ---- white-box cases on the size logic (no file needed):
     S ps <v>                      set_page_size
     L <ps> <comp> <flags> <hex>   lkcd_page on a payload  *)
let sizes_case (ws : string list) : string =
  match ws with
  | ["S"; "ps"; v] ->
      (match SizesModel.set_page_size true (n_of_hex v) with
       | Bounded.Ok (ps, sh) -> Printf.sprintf "S ok %s %s" (hex_of_n ps) (hex_of_n sh)
       | Bounded.Err (st, _) -> "S " ^ status_name st
       | r -> "S " ^ ub_name r)
  | _ -> "SKIP"

let run_case (line : string) : string =
  match words line with
  | ["R"; cap; src] -> rle_line cap src
  | ["R"; cap] -> rle_line cap "-"
  | "F" :: opts :: specs -> predict_file opts specs
  | "S" :: _ -> sizes_case (words line)
  | _ -> "SKIP"

(* implementation judged by the spec: "R cap src | R ret len buf" *)
let spec_case (line : string) : string =
  match Stdlib.List.map String.trim (split_on '|' line) with
  | [case; impl] ->
      (match words case, words impl with
       | ("R" :: cap :: rest), ["R"; ret; len; buf] ->
           let src = (match rest with s :: _ -> s | [] -> "-") in
           let capi = int_of_n (n_of_hex cap) in
           (match RleSpec.rle_spec (bytes_of_hex src) (n_of_hex cap) with
            | Some out ->
                if ret <> "0" then "rle: valid stream that fits the buffer rejected"
                else if int_of_string ("0x" ^ len) <> Stdlib.List.length out then "rle: wrong output length " ^ len
                else if buf <> pad_buffer capi out then "rle: wrong output bytes or a write beyond the reported length"
                else "ok"
            | None ->
                if ret <> "-1" then "rle: invalid or oversized stream accepted"
                else if int_of_string ("0x" ^ len) <> capi then "rle: length changed on error"
                else if capi > 0 && String.length buf <> 2 * capi then "rle: buffer dump has wrong size"
                else "ok")
       | _ -> "spec: unparsable implementation line: " ^ impl)
  | _ -> failwith "bad spec line"

let engines = [ "corrupt", run_case; "corrupt-spec", spec_case ]
