(* engine "read" (C12).  Case lines as for harness/read_drv.c:
     R <path> <as>:<addr>:<len> ...       S <path> <as>:<addr>:<k|-> ...
   The page source comes from the side file <path>.pages written by the orchestrator from
   the driver's probe: first line "ps <hex>", then one line per page "<as>:<addr>:<status>:<hex|->". *)
open Util
open ReadModel

let bytes_of_hex (s : string) : BinNums.coq_N list =
  if s = "-" || s = "" then [] else
  Stdlib.List.init (String.length s / 2) (fun i -> n_of_hex (String.sub s (2 * i) 2))

let hex_of_bytes (l : BinNums.coq_N list) : string =
  if l = [] then "-" else
  String.concat "" (Stdlib.List.map (fun b -> Printf.sprintf "%02x" (int_of_n b)) l)

type pagetab = { ps : BinNums.coq_N; tab : (string, gp) Hashtbl.t }
let cache : (string, pagetab) Hashtbl.t = Hashtbl.create 16

let load (path : string) : pagetab =
  match Hashtbl.find_opt cache path with
  | Some t -> t
  | None ->
      let lines = read_lines (path ^ ".pages") in
      let ps = ref BinNums.N0 and tab = Hashtbl.create 64 in
      Stdlib.List.iter (fun l ->
        match words l with
        | ["ps"; p] -> ps := n_of_hex p
        | ws -> Stdlib.List.iter (fun w ->
            match split_on ':' w with
            | [a; addr; st; hex] ->
                Hashtbl.replace tab (a ^ ":" ^ addr)
                  (if st = "0" && hex <> "-" then PageOk (bytes_of_hex hex) else PageErr (z_of_hex st))
            | _ -> failwith ("bad page entry " ^ w)) ws) lines;
      let t = { ps = !ps; tab } in
      Hashtbl.replace cache path t; t

exception Unprobed of string
let get_page (t : pagetab) (a : string) (addr : BinNums.coq_N) : gp =
  let k = a ^ ":" ^ hex_of_n addr in
  match Hashtbl.find_opt t.tab k with Some g -> g | None -> raise (Unprobed k)

let pinned = (Sys.getenv_opt "VERIF_C12_PINNED" = Some "1")
let lazy_nul = (Sys.getenv_opt "VERIF_C12_LAZY_NUL" = Some "1")
(* KDUMP_KPHYSADDR, KDUMP_MACHPHYSADDR, KDUMP_KVADDR *)
let valid_as (a : string) : bool = (a = "0" || a = "1" || a = "2")
let fill = n_of_int 0xa5
let flag b = if b then "1" else "0"

let oracle_of (k : string) : bool list =
  if k = "-" then [] else
  let n = int_of_string ("0x" ^ k) in Stdlib.List.init (n + 1) (fun i -> i <> n)

let run_item (mode : string) (t : pagetab) (item : string) : string =
  match split_on ':' item with
  | [a; addr; third] ->
      let addr = n_of_hex addr in
      if mode = "R" then begin
        let len = int_of_string ("0x" ^ third) in
        let buf = Stdlib.List.init len (fun _ -> fill) in
        match read_locked t.ps (get_page t a) (valid_as a) (nat_of_int (len + 1)) addr (n_of_int len) buf with
        | RDone r ->
            let pl = int_of_n r.rr_plength in
            let got = Stdlib.List.filteri (fun i _ -> i < pl) r.rr_buffer in
            let rest = Stdlib.List.filteri (fun i _ -> i >= pl) r.rr_buffer in
            let untouched = Stdlib.List.for_all (fun b -> b = fill) rest
                            && Stdlib.List.length r.rr_buffer = len in
            let balanced = (open_pages r.rr_events [] = []) in
            Printf.sprintf "%s,%x,%s,%s,%s%s" (hex_of_z r.rr_status) pl (flag untouched)
              (flag (r.rr_status <> BinNums.Z0)) (hex_of_bytes got)
              (if balanced then "" else ",PAGE-REFS-UNBALANCED")
        | ROutOfFuel -> "OUT-OF-FUEL" | ROob -> "OOB" | RDivZero -> "DIV-ZERO"
      end else begin
        match read_string_locked t.ps (get_page t a) (not pinned) lazy_nul (valid_as a) (nat_of_int 4096) addr (oracle_of third) with
        | SDone r ->
            let live = outstanding r.sr_events [] in
            let live = match r.sr_string with
              | Some (id, _) -> Stdlib.List.filter (fun x -> x <> id) live | None -> live in
            let balanced = (open_pages r.sr_events [] = []) in
            Printf.sprintf "%s,%s,%s,%s%s" (hex_of_z r.sr_status) (flag (r.sr_status <> BinNums.Z0))
              (flag (live <> []))
              (match r.sr_string with Some (_, s) -> hex_of_bytes s | None -> "-")
              (if balanced then "" else ",PAGE-REFS-UNBALANCED")
        | SOutOfFuel -> "OUT-OF-FUEL" | SOob -> "OOB" | SDivZero -> "DIV-ZERO"
        | SOverrun -> "OVERRUN (write past the block granted by realloc)"
      end
  | _ -> failwith ("bad item " ^ item)

let run_case (line : string) : string =
  match words line with
  | mode :: path :: items ->
      let mode = String.sub mode 0 1 in
      let t = load path in
      String.concat " " (Stdlib.List.map (fun it ->
        try run_item mode t it with Unprobed k -> "UNPROBED:" ^ k) items)
  | _ -> ""

(* spec mode: "<mode> <path> <item> <implementation's answer for that item>": is the answer what
   the specification (ReadSpec) demands for the probed page source? *)
let spec_case (line : string) : string =
  match words line with
  | [mode; path; item; ans] ->
      let mode = String.sub mode 0 1 in
      let t = load path in
      (match split_on ':' item, split_on ',' ans with
       | [a; addr; third], st :: rest ->
           let addr = n_of_hex addr and gp = get_page t a in
           (try
             if not (valid_as a) then begin
               (* an address space outside the enumeration: nothing can be delivered *)
               if st = "0" then "success for an address space outside the enumeration"
               else if mode = "R" then
                 (match rest with
                  | [pl; untouched; _; _] ->
                      if pl <> "0" then "failure reports " ^ pl ^ " delivered bytes although nothing was delivered"
                      else if untouched <> "1" then "buffer modified although nothing was delivered"
                      else "ok"
                  | _ -> "malformed answer " ^ ans)
               else
                 (match rest with
                  | [_; leak; _] -> if leak <> "0" then "string block leaked" else "ok"
                  | _ -> "malformed answer " ^ ans)
             end else
             if mode = "R" then begin
               match rest with
               | [pl; untouched; _msg; hex] ->
                   let len = int_of_string ("0x" ^ third) and pl = int_of_string ("0x" ^ pl) in
                   (* page-at-a-time form of prefix_len / prefix_bytes / fail_status (ReadProofs.prefix_pw_spec) *)
                   let (want, stop) = ReadSpec.prefix_pw t.ps gp (nat_of_int (len + 1)) addr (n_of_int len) in
                   let k = Stdlib.List.length want in
                   let got = bytes_of_hex hex in
                   if st = "0" then
                     (if pl <> len then Printf.sprintf "success but reported length %x of %x" pl len
                      else if k <> len then Printf.sprintf "success although only %x of %x bytes can be provided" k len
                      else if got <> want then "success but delivered bytes differ from the file's"
                      else "ok")
                   else begin
                     if k = len then Printf.sprintf "failure (status %s) although all %x bytes can be provided" st len
                     else if pl <> k then Printf.sprintf "failure reports %x delivered bytes, the readable prefix has %x" pl k
                     else if got <> want then "delivered prefix differs from the file's bytes"
                     else if untouched <> "1" then "buffer modified beyond the reported length"
                     else (match stop with
                           | Some z when hex_of_z z = st -> "ok"
                           | Some z -> Printf.sprintf "status %s, but the first missing page fails with %s" st (hex_of_z z)
                           | None -> "internal: no failing page at the prefix end")
                   end
               | _ -> "malformed answer " ^ ans
             end else begin
               match rest with
               | [_msg; leak; hex] ->
                   let want = ReadSpec.cstring_pw t.ps gp (nat_of_int 4096) addr in
                   if leak <> "0" then "partial string leaked (a block of read_string_locked is neither returned nor freed)"
                   else if st = "0" then
                     (match want with
                      | Coq_inl s -> if bytes_of_hex hex = s then "ok" else "string differs from the bytes up to the first NUL"
                      | Coq_inr _ -> "success although no NUL can be reached")
                   else if third <> "-" && st = "1" then "ok"     (* injected realloc failure *)
                   else
                     (match want with
                      | Coq_inr (Some z) when hex_of_z z = st -> "ok"
                      | Coq_inr (Some z) -> Printf.sprintf "status %s, but the first missing page fails with %s" st (hex_of_z z)
                      | _ -> "failure (status " ^ st ^ ") although the string is readable")
               | _ -> "malformed answer " ^ ans
             end
           with Unprobed k -> "ok-unprobed")
       | _ -> "malformed spec line")
  | _ -> failwith "bad spec line"

let engines = [ "read", run_case; "read-spec", spec_case ]
