(* engine "rcache": one case per line, ops separated by spaces (hex numbers)
     G:<as>:<addr>                 get_cache_buf
     R:<as>:<addr>                 do_read64
     B:<as>:<addr>                 bury_cache_buffer
     N:<as>:<addr>:<as2>:<addr2>   get_cache_buf whose callback calls get_cache_buf(as2, addr2)
   output per op: "<out>[<idx>:<as>:<addr>:<size>:<ptrnull>,...]" (slots in ring order from
   mru following next), then "L<gets>:<puts>:<outstanding>" after cleanup_cache.
   <out>: G0=<buffer start>:<first byte of the buffer> | G<status> | R0=<value> | R<status> |
          B | N<status>/<nested status or ->
   engines "rcache-w16", "rcache-w31", "rcache-w32", "rcache-w63": the same code with the
   in-buffer offset computed in that many bits (ReadCache.run_op_w); "rcache" is the code.
   engine "rcache-spec": "<case> | <implementation output>" -> "ok" or the reason: every
   answer is judged by the cache-less computation [direct], the printed slots by the
   invariant, the page counts by the balance. *)
open Util
open BinNums
open ReadCache

let nodata = 5                      (* ADDRXLAT_ERR_NODATA *)

let parse_op (s : string) : op =
  match split_on ':' s with
  | ["G"; a; b] -> OGet (n_of_hex a, n_of_hex b, [])
  | ["R"; a; b] -> ORead (n_of_hex a, n_of_hex b, n_of_int 8, [])
  | ["B"; a; b] -> OBury (n_of_hex a, n_of_hex b)
  | ["N"; a; b; c; d] -> OGet (n_of_hex a, n_of_hex b, [OGet (n_of_hex c, n_of_hex d, [])])
  | _ -> failwith ("bad op " ^ s)

let int_of_ix = function I0 -> 0 | I1 -> 1 | I2 -> 2 | I3 -> 3

let show_slots (c : cache) : string =
  "[" ^ String.concat "," (Stdlib.List.map (fun i ->
    let s = get_slot c i in
    (* the address of an empty slot is dead state (ReadCacheProofs.readcache_failed_fill_not_cached:
       no address hits it) and a failing callback may or may not have written it: printed as 0 *)
    Printf.sprintf "%d:%s:%s:%s:%d" (int_of_ix i) (hex_of_n s.as_)
      (if s.size = N0 then "0" else hex_of_n s.addr)
      (hex_of_n s.size) (match s.ptr with None -> 1 | Some _ -> 0)) (ring_list c.rg)) ^ "]"

(* little-endian value of a byte list, as hex *)
let le_hex (l : coq_N list) : string =
  let s = String.concat "" (Stdlib.List.rev_map (fun b -> Printf.sprintf "%02x" (int_of_n b)) l) in
  let n = String.length s in
  let i = ref 0 in
  while !i < n - 1 && s.[!i] = '0' do incr i done;
  String.sub s !i (n - !i)

let status_of_gres = function GOk _ -> 0 | GFail -> nodata | GRecursion -> nodata

let show_get (c : cache) (r : gres) : string =
  match r with
  | GOk i ->
      let s = get_slot c i in
      (match s.ptr with
       | Some d -> Printf.sprintf "0=%s:%x" (hex_of_n s.addr) (int_of_n (Stdlib.List.hd d))
       | None -> "0=NULL")
  | _ -> string_of_int (status_of_gres r)

let show_out (o : op) (c : cache) (ev : event list) (out : outcome) : string =
  match o, out with
  | OGet (_, _, []), OutG r -> "G" ^ show_get c r
  | OGet (_, a, _), OutG r ->
      let nested = Stdlib.List.fold_left (fun acc e ->
        match e with RetG r -> string_of_int (status_of_gres r) | _ -> acc) "-" ev in
      "N" ^ string_of_int (status_of_gres r) ^ "/" ^ nested
  | ORead _, OutR (RBytes l) -> "R0=" ^ le_hex l
  | ORead _, OutR ROOB -> "ROOB"
  | ORead _, OutR _ -> "R" ^ string_of_int nodata
  | OBury _, _ -> "B"
  | _ -> "?"

let count_events (ev : event list) : int * int =
  Stdlib.List.fold_left (fun (g, p) e ->
    match e with
    | Got _ -> (g + 1, p)
    | Put (_, Some _) -> (g, p + 1)      (* a Put of a buffer with ptr = NULL is def_put_page_cb *)
    | _ -> (g, p)) (0, 0) ev

let run_with (step : cache -> op -> (cache * event list) * outcome) (line : string) : string =
  let ops = Stdlib.List.map parse_op (words line) in
  let c = ref init_cache and gets = ref 0 and puts = ref 0 in
  let toks = Stdlib.List.map (fun o ->
    let ((c', ev), out) = step !c o in
    let (g, p) = count_events ev in
    gets := !gets + g; puts := !puts + p; c := c';
    show_out o c' ev out ^ show_slots c') ops in
  let (_, p) = count_events (cleanup_events !c) in
  puts := !puts + p;
  String.concat " " (toks @ [Printf.sprintf "L%x:%x:%x" !gets !puts (!gets - !puts)])

let run_case = run_with (run_op synth_get_page)
let run_case_w (k : int) = run_with (run_op_w synth_get_page (n_of_int k))

(* ---- spec mode ---- *)
(* the callback is a pure function: remember its answers (slot addresses repeat a lot) *)
let region_memo : (coq_N * coq_N, ((coq_N * coq_N) * coq_N list) option) Hashtbl.t = Hashtbl.create 997
let region (a_as : coq_N) (a : coq_N) =
  match Hashtbl.find_opt region_memo (a_as, a) with
  | Some r -> r
  | None -> let r = synth_get_page a_as a in
            if Hashtbl.length region_memo < 100000 then Hashtbl.add region_memo (a_as, a) r; r

type pslot = { idx : int; sas : coq_N; sad : coq_N; ssz : coq_N; pnull : bool }

let parse_slots (s : string) : pslot list =
  (* "[i:as:addr:size:ptrnull,...]" *)
  let body = String.sub s 1 (String.length s - 2) in
  Stdlib.List.map (fun t -> match split_on ':' t with
    | [i; a; b; sz; pn] -> { idx = int_of_string i; sas = n_of_hex a; sad = n_of_hex b;
                             ssz = n_of_hex sz; pnull = (pn = "1") }
    | _ -> failwith "bad slot") (split_on ',' body)

(* the slot is responsible for address a of space a_as (unbounded arithmetic) *)
let owns (p : pslot) (a_as : coq_N) (a : coq_N) : bool =
  p.sas = a_as && BinNat.N.leb p.sad a && BinNat.N.ltb a (BinNat.N.add p.sad p.ssz)

let judge_slots (slots : pslot list) : string option =
  let idx = Stdlib.List.sort compare (Stdlib.List.map (fun p -> p.idx) slots) in
  if idx <> [0; 1; 2; 3] then Some "the MRU ring is not a permutation of the four slots" else
  Stdlib.List.fold_left (fun acc p ->
    match acc with Some _ -> acc | None ->
    if p.ssz = N0 then None
    else if p.pnull then Some (Printf.sprintf "failed fill left in the slot: slot %d claims %s:%s+%s but has no data (ptr = NULL) outside a callback"
                               p.idx (hex_of_n p.sas) (hex_of_n p.sad) (hex_of_n p.ssz))
    else match region p.sas p.sad with
      | Some ((b', sz'), _) when b' = p.sad && sz' = p.ssz -> None
      | _ -> Some (Printf.sprintf "slot %d does not hold the region of its own address" p.idx)) None slots

let order (l : pslot list) = Stdlib.List.map (fun p -> p.idx) l

(* the MRU order after an operation, judged from the order before it *)
let judge_order (o : op) (ok : bool) (prev : pslot list) (cur : pslot list) : string option =
  match o with
  | OBury (a_as, a) ->
      let byidx = Stdlib.List.sort (fun p q -> compare p.idx q.idx) prev in
      let want = match Stdlib.List.filter (fun p -> owns p a_as a) byidx with
        | p :: _ -> Stdlib.List.filter (fun i -> i <> p.idx) (order prev) @ [p.idx]
        | [] -> order prev in
      if Stdlib.List.sort compare prev <> Stdlib.List.sort compare cur then Some "bury changed a slot's contents"
      else if order cur <> want then
        Some ("bury must move exactly the slot that holds the address to the end of the MRU order (expected " ^
              String.concat "," (Stdlib.List.map string_of_int want) ^ ")")
      else None
  | OGet (a_as, a, []) | ORead (a_as, a, _, []) ->
      if ok then (match cur with
        | p :: _ when owns p a_as a -> None
        | _ -> Some "the most recently used slot does not hold the requested address")
      else if order cur <> order prev then Some "a failed call changed the MRU order" else None
  | _ -> None

let initial_slots = parse_slots "[0:0:0:0:1,1:0:0:0:1,2:0:0:0:1,3:0:0:0:1]"

let spec_case (line : string) : string =
  match Stdlib.List.map String.trim (split_on '|' line) with
  | [case; impl] ->
      let ops = words case and outs = words impl in
      if Stdlib.List.length outs <> Stdlib.List.length ops + 1 then "wrong number of outputs" else
      let rec go prev ops outs =
        match ops, outs with
        | [], [l] ->
            (match split_on ':' (String.sub l 1 (String.length l - 1)) with
             | [g; p; o] -> if o = "0" && g = p then "ok"
                            else "pages gotten and put do not balance: " ^ l
             | _ -> "bad L token")
        | o :: ops', t :: outs' ->
            let k = String.index t '[' in
            let ans = String.sub t 0 k and sl = String.sub t k (String.length t - k) in
            let pop = parse_op o in
            let want = match pop with
              | OGet (a_as, a, []) ->
                  (match region a_as a with
                   | None -> "G" ^ string_of_int nodata
                   | Some ((b, _), d) ->
                       Printf.sprintf "G0=%s:%x" (hex_of_n b) (int_of_n (Stdlib.List.hd d)))
              | OGet (a_as, a, _) ->
                  (* only the outer status is a pure function of the address *)
                  (match region a_as a with None -> "N" ^ string_of_int nodata | Some _ -> "N0")
              | ORead (a_as, a, n, _) ->
                  (match direct synth_get_page a_as a n with
                   | RBytes l -> "R0=" ^ le_hex l
                   | ROOB -> "ROOB"
                   | _ -> "R" ^ string_of_int nodata)
              | OBury _ -> "B" in
            let ans' = if String.length ans > 0 && ans.[0] = 'N' then
                         Stdlib.List.hd (split_on '/' ans) else ans in
            if ans' <> want then Printf.sprintf "%s answered %s, the cache-less answer is %s" o ans want
            else
              let cur = parse_slots sl in
              let ok = String.length ans > 1 && ans.[1] = '0' in
              (match judge_slots cur with
               | Some why -> o ^ ": " ^ why
               | None -> (match judge_order pop ok prev cur with
                          | Some why -> o ^ ": " ^ why
                          | None -> go cur ops' outs'))
        | _ -> "wrong number of outputs" in
      go initial_slots ops outs
  | _ -> failwith "bad spec line"

let engines = [ "rcache", run_case; "rcache-spec", spec_case;
                "rcache-w16", run_case_w 16; "rcache-w31", run_case_w 31;
                "rcache-w32", run_case_w 32; "rcache-w63", run_case_w 63 ]
