(* engine "derived" (C14): one case per line.

   CTX <op> ...        a context without a dump file
     PS:<hex> PH:<hex> CS CH            set / clear arch.page_size, arch.page_shift
     REL:<hexbytes> CREL VC             linux.uts.release set / clear, get linux.version_code
     RAW:<l|x>:<hexbytes> CRAW:<l|x>    set / clear <os>.vmcoreinfo.raw
     QR:<l|x> QL:<l|x>:<hexkey> QS:<l|x>:<hexname>   kdump_vmcoreinfo_raw/line/symbol
   REG <e_machine> <class> <be> <hexblob> <name:off:len,...> <op> ...
     G:<i> S:<i>:<hex> C:<i> W:<off>:<hexbytes> Z:<hexbytes> P:<hexbytes> X B O:<0|1>

   Byte strings are hex, "-" when empty.  Output: one token per op. *)
open Util
open BinNums

let bytes_of_hex (s : string) : coq_N list =
  if s = "-" || s = "" then [] else
  Stdlib.List.init (String.length s / 2) (fun i -> n_of_hex (String.sub s (2 * i) 2))

let hex_of_bytes (b : coq_N list) : string =
  if b = [] then "-" else
  String.concat "" (Stdlib.List.map (fun x -> Printf.sprintf "%02x" (int_of_n x)) b)

let show_status st = string_of_int (int_of_n (AttrBase.status_code st))
let show_outcome = function
  | AttrBase.St s -> show_status s
  | AttrBase.BadShift -> "BADSHIFT"
  | AttrBase.Undef -> "UNDEF"
  | AttrBase.OutOfFuel -> "FUEL"

let b01 b = if b then "1" else "0"
let show_sattr (a : Hooks.sattr) =
  b01 a.Hooks.a_isset ^ "." ^ b01 a.Hooks.a_persist ^ "." ^ hex_of_n a.Hooks.a_val
let show_page (p : Hooks.pstate) = show_sattr p.Hooks.p_size ^ "/" ^ show_sattr p.Hooks.p_shift

(* ---- vmcoreinfo dump ---- *)
let comp_str (c : coq_N list) = hex_of_bytes c

let rec dump_nodes (prefix : string) (l : Vmcoreinfo.node list) (acc : string list ref) =
  Stdlib.List.iter (fun (Vmcoreinfo.Node (k, ty, isset, sv, nv, kids)) ->
    if isset then begin
      let path = if prefix = "" then comp_str k else prefix ^ "." ^ comp_str k in
      (match ty with
       | Vmcoreinfo.VDir -> acc := (path ^ "=d") :: !acc; dump_nodes path kids acc
       | Vmcoreinfo.VStr -> acc := (path ^ "=s" ^ hex_of_bytes sv) :: !acc
       | Vmcoreinfo.VNum -> acc := (path ^ "=n" ^ hex_of_n nv) :: !acc
       | Vmcoreinfo.VAddr -> acc := (path ^ "=a" ^ hex_of_n nv) :: !acc)
    end) l

let dump_dir tag isset l =
  let acc = ref [] in
  dump_nodes "" l acc;
  tag ^ b01 isset ^ "[" ^ String.concat "," (Stdlib.List.rev !acc) ^ "]"

let dump_vmci (v : Vmcoreinfo.vmci) (g : Vmcoreinfo.genv) =
  let open Vmcoreinfo in
  String.concat ";" [
    dump_dir "L" v.lines_isset v.lines;
    dump_dir "TL" v.length_isset v.t_length;
    dump_dir "TN" v.number_isset v.t_number;
    dump_dir "TO" v.offset_isset v.t_offset;
    dump_dir "TS" v.size_isset v.t_size;
    dump_dir "TY" v.symbol_isset v.t_symbol;
    "P" ^ show_page g.g_page;
    "REL" ^ b01 g.g_ver.Hooks.r_isset ^ ":" ^
      (if g.g_ver.Hooks.r_isset then hex_of_bytes g.g_ver.Hooks.r_val else "-");
    "PB" ^ (match g.g_physbase with None -> "u" | Some n -> hex_of_n n) ]

let parse_os s = (s = "l")

let parse_cop (s : string) : Vmcoreinfo.cop =
  let open Vmcoreinfo in
  match split_on ':' s with
  | ["PS"; v] -> CPage (Hooks.PSet (Hooks.KSize, n_of_hex v))
  | ["PH"; v] -> CPage (Hooks.PSet (Hooks.KShift, n_of_hex v))
  | ["CS"] -> CPage (Hooks.PClear Hooks.KSize)
  | ["CH"] -> CPage (Hooks.PClear Hooks.KShift)
  | ["REL"; b] -> CSetRelease (bytes_of_hex b)
  | ["CREL"] -> CClearRelease
  | ["VC"] | ["VCR"] | ["VCI"] -> CGetVersion        (* by key, by reference, by iterator position *)
  | ["RAW"; os; b] -> CSetRaw (parse_os os, bytes_of_hex b)
  | ["CRAW"; os] -> CClearRaw (parse_os os)
  | ["QR"; os] -> CGetRaw (parse_os os)
  | ["QL"; os; k] -> CGetLine (parse_os os, bytes_of_hex k)
  | ["QS"; os; k] -> CGetSymbol (parse_os os, bytes_of_hex k)
  | _ -> failwith ("bad ctx op " ^ s)

let show_cout (o : Vmcoreinfo.cop) (r : Vmcoreinfo.cout) (c : Vmcoreinfo.ctx) : string =
  let open Vmcoreinfo in
  match o, r with
  | CPage _, COutcome oc -> show_outcome oc ^ "/" ^ show_page c.c_env.g_page
  | (CSetRaw (os, _) | CClearRaw os), COutcome oc ->
      "R" ^ show_outcome oc ^ "{" ^ dump_vmci (if os then c.c_linux else c.c_xen) c.c_env ^ "}"
  | _, COutcome oc -> show_outcome oc
  | CGetSymbol _, CNum (st, n) | CGetVersion, CNum (st, n) -> show_status st ^ ":" ^ hex_of_n n
  | _, CNum (st, n) -> show_status st ^ ":" ^ hex_of_n n
  | _, CBytes (st, b) -> show_status st ^ ":" ^ hex_of_bytes b

let run_ctx (ops : string list) : string =
  let cops = Stdlib.List.map parse_cop ops in
  let tr = Vmcoreinfo.crun cops Vmcoreinfo.ctx0 in
  String.concat " " (Stdlib.List.map2 (fun o (r, c) -> show_cout o r c) cops tr)

(* ---- registers ---- *)
let parse_defs (s : string) : (string * int * int) list =
  Stdlib.List.map (fun d -> match split_on ':' d with
    | [name; off; len] -> (name, int_of_string off, int_of_string len)
    | _ -> failwith ("bad def " ^ d)) (split_on ',' s)

let parse_dop (s : string) : Derived.dop =
  let open Derived in
  match split_on ':' s with
  | ["G"; i] | ["GR"; i] | ["GI"; i] -> RGet (nat_of_int (int_of_string i))
  | ["S"; i; v] | ["SR"; i; v] -> RSet (nat_of_int (int_of_string i), n_of_hex v)
  | ["C"; i] -> RClear (nat_of_int (int_of_string i))
  | ["W"; off; b] -> BWrite (nat_of_int (int_of_string off), bytes_of_hex b)
  | ["Z"; b] -> BResize (bytes_of_hex b)
  | ["P"; b] -> BReplace (bytes_of_hex b)
  | ["X"] -> BClear
  | ["B"] -> BGet
  | ["O"; b] -> SetOrder (b = "1")
  | _ -> failwith ("bad reg op " ^ s)

let show_dout = function
  | Derived.DStatus st -> show_status st
  | Derived.DNum (st, v) -> show_status st ^ ":" ^ hex_of_n v
  | Derived.DBytes (st, b) -> show_status st ^ ":" ^ hex_of_bytes b

let ddefs_of defs =
  Stdlib.List.map (fun (_, off, len) -> { Derived.d_off = n_of_int off; Derived.d_len = n_of_int len }) defs

let run_reg (be : string) (blob : string) (defs : string) (ops : string list) : string =
  let defs = ddefs_of (parse_defs defs) in
  let s0 = Derived.dinit defs (bytes_of_hex blob) (be = "1") in
  let outs = Derived.drun defs (Stdlib.List.map parse_dop ops) s0 in
  String.concat " " (Stdlib.List.map show_dout outs)

let run_case (line : string) : string =
  match words line with
  | "CTX" :: ops -> run_ctx ops
  | "REG" :: _mach :: _cls :: be :: blob :: defs :: ops -> run_reg be blob defs ops
  | _ -> failwith "bad case"

(* =====================================================================
   spec mode: "<case line> || <implementation's output line>"
   The implementation's answers are judged by DerivedSpec (not by the model).
   Prints "ok" or the first reason. *)

exception Bad of string
let bad fmt = Printf.ksprintf (fun s -> raise (Bad s)) fmt

(* "1.0.1000" -> (isset, persist, value) *)
let parse_sattr s = match split_on '.' s with
  | [i; p; v] -> (i = "1", p = "1", n_of_hex v)
  | _ -> bad "unparsable attribute view %s" s
let view (i, _, v) = if i then Some v else None
let parse_page s = match split_on '/' s with
  | [a; b] -> (parse_sattr a, parse_sattr b)
  | _ -> bad "unparsable page view %s" s

(* "L1[a=sb,c=d];TL0[];...;P../..;REL1:xx;PBu" *)
let parse_dump (s : string) =
  let fields = split_on ';' s in
  let dir tag =
    let f = try Stdlib.List.find (fun f -> String.length f > String.length tag + 1
                 && String.sub f 0 (String.length tag) = tag
                 && (f.[String.length tag] = '0' || f.[String.length tag] = '1')) fields
            with Not_found -> bad "dump without %s" tag in
    let lb = String.index f '[' in
    let body = String.sub f (lb + 1) (String.length f - lb - 2) in
    let ents = if body = "" then [] else split_on ',' body in
    Stdlib.List.map (fun e -> match split_on '=' e with
      | [p; v] -> (p, v) | _ -> bad "bad dump entry %s" e) ents in
  let find pfx = try let f = Stdlib.List.find (fun f -> String.length f >= String.length pfx
                        && String.sub f 0 (String.length pfx) = pfx && not (String.contains f '[')) fields in
                     String.sub f (String.length pfx) (String.length f - String.length pfx)
                 with Not_found -> bad "dump without %s" pfx in
  (dir, find)

let path_str (comps : coq_N list list) = String.concat "." (Stdlib.List.map hex_of_bytes comps)

let sort_uniq l = Stdlib.List.sort_uniq compare l

(* expected leaf entries of the lines tree / typed trees for a representable text *)
let expected_lines (text : coq_N list) : (string * string) list =
  let kvs = DerivedSpec.text_kvs text in
  sort_uniq (Stdlib.List.map (fun (k, _) ->
    match DerivedSpec.last_value k kvs with
    | Some v -> (path_str (AttrBase.split_on AttrBase.coq_DOT k), "s" ^ hex_of_bytes v)
    | None -> bad "spec: key without value") kvs)

let type_tags = [ "TL", AttrBase.s_LENGTH; "TN", AttrBase.s_NUMBER; "TO", AttrBase.s_OFFSET;
                  "TS", AttrBase.s_SIZE; "TY", AttrBase.s_SYMBOL ]

let expected_typed (text : coq_N list) (ty : coq_N list) (tag : string) : (string * string) list =
  let bs = DerivedSpec.typed_bindings text in
  sort_uniq (Stdlib.List.filter_map (fun ((t, n), _) ->
    if t = ty then
      match DerivedSpec.typed_value ty n text with
      | Some v -> Some (path_str (AttrBase.split_on AttrBase.coq_DOT n),
                        (if tag = "TY" then "a" else "n") ^ hex_of_n v)
      | None -> bad "spec: binding without value"
    else None) bs)

let leaves ents = sort_uniq (Stdlib.List.filter (fun (_, v) -> v <> "d") ents)

type osstate = { mutable text : coq_N list option;   (* raw set (text) *)
                 mutable good : bool }                (* last set accepted and representable *)

let spec_ctx (ops : string list) (outs : string list) : string =
  if Stdlib.List.length ops <> Stdlib.List.length outs then
    bad "implementation produced %d results for %d operations"
      (Stdlib.List.length outs) (Stdlib.List.length ops);
  let page = ref ((false, false, N0), (false, false, N0)) in
  let rel : coq_N list option option ref = ref (Some None) in   (* Some x: known; None: unknown *)
  let lin = { text = None; good = true } and xen = { text = None; good = true } in
  let osst os = if os = "l" then lin else xen in
  let check_page_coherent where =
    let (sz, sh) = !page in
    if not (DerivedSpec.coherentb (view sz) (view sh)) then
      bad "%s: page_size and page_shift are both set but size <> 2^shift" where in
  Stdlib.List.iter2 (fun op out ->
    match split_on ':' op with
    | ["PS"; v] | ["PH"; v] ->
        let is_size = String.sub op 0 2 = "PS" in
        let v = n_of_hex v in
        let (st, pv) = match split_on '/' out with
          | [st; a; b] -> (st, (parse_sattr a, parse_sattr b)) | _ -> bad "bad output %s" out in
        let before = !page in
        let valid = if is_size then DerivedSpec.valid_sizeb v else DerivedSpec.valid_shiftb v in
        if valid then begin
          if st <> "0" then bad "%s: a valid value was refused with status %s" op st;
          let (sz, sh) = pv in
          if view (if is_size then sz else sh) <> Some v then bad "%s: the value set is not the value read" op
        end else begin
          if st = "0" then bad "%s: an invalid value was accepted" op;
          let (bz, bh) = before and (sz, sh) = pv in
          if view bz <> view sz || view bh <> view sh then
            bad "%s: a refused value changed page_size/page_shift" op
        end;
        page := pv; check_page_coherent op
    | ["CS"] | ["CH"] ->
        let pv = match split_on '/' out with
          | [_; a; b] -> (parse_sattr a, parse_sattr b) | _ -> bad "bad output %s" out in
        let (bz, bh) = !page and (sz, sh) = pv in
        if op = "CS" && (view sz <> None || view sh <> view bh) then bad "CS: clear did not clear exactly page_size";
        if op = "CH" && (view sh <> None || view sz <> view bz) then bad "CH: clear did not clear exactly page_shift";
        page := pv
    | ["REL"; b] -> if out <> "0" then bad "REL: status %s" out; rel := Some (Some (bytes_of_hex b))
    | ["CREL"] -> rel := Some None
    | ["VC"] | ["VCR"] | ["VCI"] ->
        (match !rel with
         | Some (Some r) ->
             (match DerivedSpec.release_verdict r with
              | None -> ()
              | Some None -> if String.length out > 1 && String.sub out 0 2 = "0:" then
                    bad "VC: release %s is not a version triple but a version code was returned (%s)" (hex_of_bytes r) out
              | Some (Some c) ->
                  if out <> "0:" ^ hex_of_n c then
                    bad "VC: release %s: expected version code %s, got %s" (hex_of_bytes r) (hex_of_n c) out)
         | _ -> ())
    | ["RAW"; os; b] ->
        let text = bytes_of_hex b in
        let st = osst os in
        let (oc, dump) =
          try let lb = String.index out '{' in
              (String.sub out 1 (lb - 1), String.sub out (lb + 1) (String.length out - lb - 2))
          with Not_found -> bad "bad RAW output %s" out in
        st.text <- Some text;
        let repr = DerivedSpec.representable (os = "l") text in
        if not repr then begin
          if oc = "0" then bad "RAW: a text whose keys cannot all be attributes was accepted";
          if oc <> "1" && oc <> "4" then bad "RAW: unexpected outcome %s" oc;
          st.good <- false;
          if os = "l" then rel := None;
          (* page attributes may have been changed by earlier lines *)
          let (_, find) = parse_dump dump in
          page := parse_page (find "P"); check_page_coherent "RAW"
        end else begin
          if oc <> "0" then bad "RAW: a representable text was refused with outcome %s" oc;
          st.good <- true;
          let (dir, find) = parse_dump dump in
          let got = leaves (dir "L") and exp = expected_lines text in
          if got <> exp then
            bad "RAW: the lines view differs from the key/value list of the text (got %d leaves, expected %d)"
              (Stdlib.List.length got) (Stdlib.List.length exp);
          Stdlib.List.iter (fun (tag, ty) ->
            let got = leaves (dir tag) and exp = expected_typed text ty tag in
            if got <> exp then bad "RAW: typed view %s differs from the numbers written in the text" tag) type_tags;
          page := parse_page (find "P"); check_page_coherent "RAW";
          if os = "l" then begin
            let kvs = DerivedSpec.text_kvs text in
            (* last PAGESIZE line that is a number decides the page size *)
            let ps = Stdlib.List.fold_left (fun acc (k, v) ->
              if k = AttrBase.s_PAGESIZE then
                (match DerivedSpec.number_of (n_of_int 10) v with Some n -> Some n | None -> acc)
              else acc) None kvs in
            (match ps with
             | Some n -> let (sz, _) = !page in
                 if view sz <> Some n then bad "RAW: arch.page_size does not equal the PAGESIZE line"
             | None -> ());
            (match DerivedSpec.last_value AttrBase.s_OSRELEASE kvs with
             | Some v ->
                 if find "REL" <> "1:" ^ hex_of_bytes v then
                   bad "RAW: linux.uts.release does not equal the OSRELEASE line";
                 rel := Some (Some v)
             | None -> ())
          end
        end
    | ["CRAW"; os] -> let st = osst os in st.text <- None; st.good <- true
    | ["QR"; os] ->
        (match (osst os).text with
         | Some t -> if out <> "0:" ^ hex_of_bytes t then bad "QR: kdump_vmcoreinfo_raw does not return the raw text"
         | None -> if String.length out > 1 && String.sub out 0 2 = "0:" then bad "QR: raw text returned although none is set")
    | ["QL"; os; k] ->
        let st = osst os in
        let key = bytes_of_hex k in
        if st.good && not (DerivedSpec.leading_dot key) then begin
          let kvs = match st.text with Some t -> DerivedSpec.text_kvs t | None -> [] in
          match DerivedSpec.last_value key kvs with
          | Some v -> if out <> "0:" ^ hex_of_bytes v then
                bad "QL: kdump_vmcoreinfo_line(%s) = %s, the text says %s" k out (hex_of_bytes v)
          | None -> if String.length out > 1 && String.sub out 0 2 = "0:" then
                bad "QL: kdump_vmcoreinfo_line(%s) returned a value for a key that is not in the text" k
        end
    | ["QS"; os; k] ->
        let st = osst os in
        let name = bytes_of_hex k in
        if st.good && not (DerivedSpec.leading_dot name) then begin
          let tv = match st.text with
            | Some t -> DerivedSpec.typed_value AttrBase.s_SYMBOL name t | None -> None in
          match tv with
          | Some v -> if out <> "0:" ^ hex_of_n v then
                bad "QS: kdump_vmcoreinfo_symbol(%s) = %s, the text says %s" k out (hex_of_n v)
          | None -> if String.length out > 1 && String.sub out 0 2 = "0:" then
                bad "QS: kdump_vmcoreinfo_symbol(%s) returned a value although the text has no such symbol" k
        end
    | _ -> bad "bad ctx op %s" op) ops outs;
  "ok"

let spec_reg be blob defs (ops : string list) (outs : string list) : string =
  if Stdlib.List.length ops <> Stdlib.List.length outs then
    bad "implementation produced %d results for %d operations"
      (Stdlib.List.length outs) (Stdlib.List.length ops);
  let defs = Array.of_list (parse_defs defs) in
  let blob = ref (Some (bytes_of_hex blob)) and be = ref (be = "1") in
  let isset = Array.make (Array.length defs) true in
  let okp out = String.length out >= 1 && (out = "0" || (String.length out > 1 && String.sub out 0 2 = "0:")) in
  Stdlib.List.iter2 (fun op out ->
    match split_on ':' op with
    | ["G"; i] | ["GR"; i] | ["GI"; i] ->
        let i = int_of_string i in
        let (name, off, len) = defs.(i) in
        let exp = if not isset.(i) then None else
          match !blob with
          | Some b -> DerivedSpec.reg_view !be (nat_of_int off) (nat_of_int len) b
          | None -> None in
        (match exp with
         | Some v -> if out <> "0:" ^ hex_of_n v then
               bad "G: %s reads %s but the blob holds %s at offset %d" name out (hex_of_n v) off
         | None -> if okp out then bad "G: %s has a value (%s) although the blob cannot supply one" name out)
    | ["S"; i; v] | ["SR"; i; v] ->
        let i = int_of_string i in
        let (name, off, len) = defs.(i) in
        isset.(i) <- true;
        let nb = match !blob with
          | Some b -> DerivedSpec.reg_write !be (nat_of_int off) (nat_of_int len) (n_of_hex v) b
          | None -> None in
        (match nb with
         | Some b -> if out <> "0" then bad "S: writing %s failed with status %s" name out; blob := Some b
         | None -> if out = "0" then bad "S: writing %s succeeded although the blob has no room for it" name)
    | ["C"; i] -> isset.(int_of_string i) <- false
    | ["W"; off; bs] ->
        let off = int_of_string off and bs = bytes_of_hex bs in
        (match !blob with
         | Some b when off + Stdlib.List.length bs <= Stdlib.List.length b ->
             if out <> "0" then bad "W: status %s" out;
             blob := Some (Stdlib.List.mapi (fun j x ->
               if j >= off && j < off + Stdlib.List.length bs then Stdlib.List.nth bs (j - off) else x) b)
         | _ -> if out = "0" then bad "W: write outside the blob reported success")
    | ["Z"; bs] -> (match !blob with Some _ -> blob := Some (bytes_of_hex bs) | None -> ())
    | ["P"; bs] -> if out <> "0" then bad "P: status %s" out; blob := Some (bytes_of_hex bs)
    | ["X"] -> blob := None
    | ["B"] ->
        (match !blob with
         | Some b -> if out <> "0:" ^ hex_of_bytes b then bad "B: the blob's bytes differ from what was written"
         | None -> if okp out then bad "B: a cleared blob still has a value")
    | ["O"; b] -> be := (b = "1")
    | _ -> bad "bad reg op %s" op) ops outs;
  "ok"

let find_sub (s : string) (sub : string) : int =
  let n = String.length s and m = String.length sub in
  let rec go i = if i + m > n then raise Not_found
    else if String.sub s i m = sub then i else go (i + 1) in
  go 0

let spec_case (line : string) : string =
  let i = try find_sub line " || " with Not_found -> failwith "bad spec line" in
  let case = String.sub line 0 i
  and out = String.sub line (i + 4) (String.length line - i - 4) in
  try
    match words case with
    | "CTX" :: ops -> spec_ctx ops (words out)
    | "REG" :: _ :: _ :: be :: blob :: defs :: ops -> spec_reg be blob defs ops (words out)
    | _ -> failwith "bad case"
  with Bad s -> s

let engines = [ "derived", run_case; "derived-spec", spec_case ]
