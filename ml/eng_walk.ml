(* engine "walk" (C02): one case per line, same syntax as harness/walk_drv.c
     pgt <fmt> <f0,f1,..> <root_as> <root> <pte_mask> <tgt_as> <bo> <addr> <cell>...
     lin <off> <tgt_as> <addr>
     lkp <endoff> <tgt_as> <addr> <orig>:<dest>...
     mar <base_as> <base> <shift> <elemsz> <valsz> <tgt_as> <bo> <addr> <cell>...
     non <tgt_as> <addr>
   output: "W <st> [<as>:<addr>] | L <st> [state] ; S <st> [state] ; ..." *)
open Util
open BinNums
open Step

let as_of_string = function
  | "0" -> KPHYSADDR | "1" -> MACHPHYSADDR | "2" -> KVADDR | "-1" -> NOADDR
  | s -> failwith ("bad address space " ^ s)
let string_of_as = function KPHYSADDR -> "0" | MACHPHYSADDR -> "1" | KVADDR -> "2" | NOADDR -> "-1"

let fmt_of_string s = match String.lowercase_ascii s with
  | "none" -> PTE_NONE | "pfn32" -> PTE_PFN32 | "pfn64" -> PTE_PFN64
  | "aarch64" -> PTE_AARCH64 | "aarch64_lpa" -> PTE_AARCH64_LPA | "aarch64_lpa2" -> PTE_AARCH64_LPA2
  | "arm" -> PTE_ARM | "ia32" -> PTE_IA32 | "ia32_pae" -> PTE_IA32_PAE
  | "ppc64_linux_rpn30" -> PTE_PPC64_LINUX_RPN30 | "riscv32" -> PTE_RISCV32
  | "riscv64" -> PTE_RISCV64 | "s390x" -> PTE_S390X | "x86_64" -> PTE_X86_64
  | _ -> failwith ("bad pte format " ^ s)

let status_of_int i = match i with
  | 0 -> OK | 1 -> NOTIMPL | 2 -> NOTPRESENT | 3 -> INVALID | 4 -> NOMEM | 5 -> NODATA | 6 -> NOMETH
  | _ -> CUSTOM (z_of_int i)
let string_of_status = function
  | OK -> "0" | NOTIMPL -> "1" | NOTPRESENT -> "2" | INVALID -> "3" | NOMEM -> "4"
  | NODATA -> "5" | NOMETH -> "6" | CUSTOM z -> string_of_int (int_of_z z)
  | BADSHIFT -> "UB-shift" | OOB -> "UB-index" | NOFUEL -> "no-fuel"

type cell = { c_as : aspace; c_addr : coq_N; c_res : rdres }

let parse_cell (s : string) : cell =
  match split_on ':' s with
  | [a; rest] ->
      (match String.index_opt rest '=', String.index_opt rest '!' with
       | Some i, _ ->
           { c_as = as_of_string a; c_addr = n_of_hex (String.sub rest 0 i);
             c_res = RdOk (n_of_hex (String.sub rest (i + 1) (String.length rest - i - 1))) }
       | None, Some i ->
           let st = String.sub rest (i + 1) (String.length rest - i - 1) in
           { c_as = as_of_string a; c_addr = n_of_hex (String.sub rest 0 i);
             c_res = RdErr (status_of_int (int_of_z (z_of_hex st))) }
       | _ -> failwith ("bad cell " ^ s))
  | _ -> failwith ("bad cell " ^ s)

let mem_of_cells (cells : cell list) : aspace -> coq_N -> rdres =
  fun a addr ->
    match Stdlib.List.find_opt (fun c -> c.c_as = a && c.c_addr = addr) cells with
    | Some c -> c.c_res
    | None -> RdErr NODATA

let parse_fields s =
  if s = "-" then [] else Stdlib.List.map n_of_hex (split_on ',' s)

(* returns (memory, method, address) *)
let parse_case (line : string) =
  match words line with
  | "pgt" :: fmt :: fs :: ras :: root :: mask :: tgt :: _bo :: addr :: cells ->
      let pf = { pte_format = fmt_of_string fmt; fieldsz = parse_fields fs } in
      (mem_of_cells (Stdlib.List.map parse_cell cells),
       { m_kind = KPgt (as_of_string ras, n_of_hex root, n_of_hex mask, pf); m_target = as_of_string tgt },
       n_of_hex addr)
  | ["lin"; off; tgt; addr] ->
      (mem_of_cells [], { m_kind = KLinear (z_of_hex off); m_target = as_of_string tgt }, n_of_hex addr)
  | "lkp" :: endoff :: tgt :: addr :: elems ->
      let tbl = Stdlib.List.map (fun e -> match split_on ':' e with
        | [o; d] -> (n_of_hex o, n_of_hex d) | _ -> failwith "bad lookup element") elems in
      (mem_of_cells [], { m_kind = KLookup (n_of_hex endoff, tbl); m_target = as_of_string tgt }, n_of_hex addr)
  | "mar" :: bas :: base :: shift :: elemsz :: valsz :: tgt :: _bo :: addr :: cells ->
      (mem_of_cells (Stdlib.List.map parse_cell cells),
       { m_kind = KMemarr (as_of_string bas, n_of_hex base, n_of_hex shift, n_of_hex elemsz, n_of_hex valsz);
         m_target = as_of_string tgt }, n_of_hex addr)
  | ["non"; tgt; addr] ->
      (mem_of_cells [], { m_kind = KNone; m_target = as_of_string tgt }, n_of_hex addr)
  | _ -> failwith "bad case"

let show_state (s : step) : string =
  let r = int_of_nat s.s_remain in
  let idx = Stdlib.List.init (min r 8 + 1) (fun i ->
    hex_of_n (Step.nthN s.s_idx (nat_of_int i))) in
  Printf.sprintf " r=%x e=%s b=%s:%s raw=%s i=%s" r (hex_of_n s.s_elemsz)
    (string_of_as s.s_as) (hex_of_n s.s_base) (hex_of_n s.s_raw) (String.concat "," idx)

let fuel = nat_of_int 64

let run_case (line : string) : string =
  let (mem, m, addr) = parse_case line in
  let b = Buffer.create 200 in
  let (st, s) = addrxlat_walk mem m fuel (init_step addr) in
  Buffer.add_string b ("W " ^ string_of_status st);
  if st = OK then Buffer.add_string b (" " ^ string_of_as s.s_as ^ ":" ^ hex_of_n s.s_base);
  let (st, s) = addrxlat_launch m (init_step addr) addr in
  Buffer.add_string b (" | L " ^ string_of_status st);
  if st = OK then Buffer.add_string b (show_state s);
  let rec loop st s guard =
    if st = OK && s.s_remain <> Datatypes.O && guard < 64 then begin
      let (st', s') = addrxlat_step mem m s in
      Buffer.add_string b (" ; S " ^ string_of_status st');
      if st' = OK then Buffer.add_string b (show_state s');
      loop st' s' (guard + 1)
    end in
  loop st s 0;
  Buffer.contents b

(* spec mode: same case line -> "<st> [<as>:<addr>]" by the architectural spec,
   or "nospec" when the format has none *)
let show_outcome ((st, r) : outcome) : string =
  match r with
  | Some (a, addr) -> string_of_status st ^ " " ^ string_of_as a ^ ":" ^ hex_of_n addr
  | None -> string_of_status st

let spec_case (line : string) : string =
  let (mem, m, addr) = parse_case line in
  match ArchSpec.spec_meth mem m addr with
  | Some o -> show_outcome o
  | None -> "nospec"

let engines = [ "walk", run_case; "walk-spec", spec_case ]
