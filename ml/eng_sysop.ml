(* engine "sysop" (C09): one translation system + queries per line.  Tokens:
     C:<caps> R:<read caps> O:<op status> F:<get-page failure status> S:<0|1 sys present>
     M<i>=<addr>:<endoff>:<meth>,...    map i built by addrxlat_map_set calls ("M<i>=" empty map)
     T<slot>=N | B | U:<st>:<as>:<key> | L:<tas>:<off> | P:<tas>:<ras>:<raddr>:<64|32>:<mask>:<f0>.<f1>..|-
              | X:<tas>:<ras>:<raddr>:<mask>:<pte format number>:<f0>.<f1>..|-      (any PTE format)
              | K:<tas>:<endoff>:<o>.<d>,..|- | A:<tas>:<bas>:<baddr>:<shift>:<elemsz>:<valsz>
     G:<as>:<page>  W:<as>:<addr>:<val>  E:<as>:<page> (page reported big-endian)
     B:<as>:<as'>   (the get-page callback serves <as> by addrxlat_fulladdr_conv to <as'>)
     Q:<as>:<addr> (addrxlat_op)   V:<as>:<addr>:<target as> (addrxlat_fulladdr_conv)
   all numbers hex, signed where the C type is.  Output, per query, joined by ';':
     st=<status> n=<operation calls> a=<as>:<addr>|- d=<nesting depth>   or UB / FUEL
   All queries of a line run on one context: the read cache persists between them.
   spec mode ("sysop-spec"): the same line followed by " | " and the implementation's
   output; prints "ok" or the failed clause per query. *)
open Util
open ChainInterp

type query = Q of fulladdr | V of fulladdr * BinNums.coq_Z

type case = {
  mutable caps : BinNums.coq_N; mutable rcaps : BinNums.coq_N;
  mutable opret : BinNums.coq_Z; mutable failst : BinNums.coq_Z; mutable sysp : bool;
  maps : ((BinNums.coq_N * BinNums.coq_N) * BinNums.coq_Z) list option array;
  meths : coq_method array;
  mutable pages : (BinNums.coq_N * BinNums.coq_N) list;
  mutable words : ((BinNums.coq_N * BinNums.coq_N) * BinNums.coq_N) list;
  mutable bigs : (BinNums.coq_N * BinNums.coq_N) list;
  mutable backing : (BinNums.coq_N * BinNums.coq_N) list;
  mutable queries : query list }

let after_eq s = let i = String.index s '=' in String.sub s (i + 1) (String.length s - i - 1)
let list_or_empty sep s = if s = "-" || s = "" then [] else split_on sep s

let aspace_of s : Step.aspace =
  match s with "0" -> Step.KPHYSADDR | "1" -> Step.MACHPHYSADDR | "2" -> Step.KVADDR | _ -> Step.NOADDR

let ptefmt_of s : Step.ptefmt =
  match int_of_string ("0x" ^ s) with
  | 0 -> Step.PTE_NONE | 1 -> Step.PTE_PFN32 | 2 -> Step.PTE_PFN64 | 3 -> Step.PTE_AARCH64
  | 4 -> Step.PTE_IA32 | 5 -> Step.PTE_IA32_PAE | 6 -> Step.PTE_X86_64 | 7 -> Step.PTE_S390X
  | 8 -> Step.PTE_PPC64_LINUX_RPN30 | 9 -> Step.PTE_AARCH64_LPA | 10 -> Step.PTE_AARCH64_LPA2
  | 11 -> Step.PTE_ARM | 12 -> Step.PTE_RISCV32 | 13 -> Step.PTE_RISCV64
  | _ -> failwith "bad pte format"

let parse_meth (s : string) : coq_method =
  match split_on ':' s with
  | ["N"] -> MNone
  | ["B"] -> MBadKind
  | ["U"; st; a; k] -> MCustom (SysEnv.env_custom (z_of_hex st) (z_of_hex a) (n_of_hex k))
  | ["L"; tas; off] -> MLinear (z_of_hex tas, n_of_hex off)
  | ["P"; tas; ras; raddr; w; mask; fl] ->
      MPgt (z_of_hex tas, { fa_addr = n_of_hex raddr; fa_as = z_of_hex ras }, (w = "64"),
            n_of_hex mask, Stdlib.List.map n_of_hex (list_or_empty '.' fl))
  | ["X"; tas; ras; raddr; mask; fmt; fl] ->
      MPgtF (aspace_of tas, aspace_of ras, n_of_hex raddr, n_of_hex mask,
             { Step.pte_format = ptefmt_of fmt;
               Step.fieldsz = Stdlib.List.map n_of_hex (list_or_empty '.' fl) })
  | ["K"; tas; eo; tbl] ->
      MLookup (z_of_hex tas, n_of_hex eo,
               Stdlib.List.map (fun p -> match split_on '.' p with
                 | [o; d] -> (n_of_hex o, n_of_hex d) | _ -> failwith "bad lookup elem")
                 (list_or_empty ',' tbl))
  | ["A"; tas; bas; baddr; sh; esz; vsz] ->
      MMemarr (z_of_hex tas, { fa_addr = n_of_hex baddr; fa_as = z_of_hex bas },
               n_of_hex sh, n_of_hex esz, n_of_hex vsz)
  | _ -> failwith ("bad method " ^ s)

let page_of p = BinNat.N.ldiff (n_of_hex p) (n_of_hex "fff")

let parse_case (line : string) : case =
  let c = { caps = N0; rcaps = N0; opret = Z0; failst = Z0; sysp = true;
            maps = Array.make 5 None; meths = Array.make 16 MNone;
            pages = []; words = []; bigs = []; backing = []; queries = [] } in
  Stdlib.List.iter (fun tok ->
    match tok.[0] with
    | 'C' -> c.caps <- n_of_hex (String.sub tok 2 (String.length tok - 2))
    | 'R' -> c.rcaps <- n_of_hex (String.sub tok 2 (String.length tok - 2))
    | 'O' -> c.opret <- z_of_hex (String.sub tok 2 (String.length tok - 2))
    | 'F' -> c.failst <- z_of_hex (String.sub tok 2 (String.length tok - 2))
    | 'S' -> c.sysp <- (tok <> "S:0")
    | 'M' ->
        let i = Char.code tok.[1] - 48 in
        c.maps.(i) <- Some (Stdlib.List.map (fun r -> match split_on ':' r with
          | [a; e; m] -> ((n_of_hex a, n_of_hex e), z_of_hex m) | _ -> failwith "bad set")
          (list_or_empty ',' (after_eq tok)))
    | 'T' ->
        let i = String.index tok '=' in
        let slot = int_of_string ("0x" ^ String.sub tok 1 (i - 1)) in
        c.meths.(slot) <- parse_meth (after_eq tok)
    | 'G' -> (match split_on ':' tok with
        | [_; a; p] -> c.pages <- (n_of_hex a, page_of p) :: c.pages | _ -> failwith "bad G")
    | 'E' -> (match split_on ':' tok with
        | [_; a; p] -> c.bigs <- (n_of_hex a, page_of p) :: c.bigs | _ -> failwith "bad E")
    | 'B' -> (match split_on ':' tok with
        | [_; a; b] -> c.backing <- c.backing @ [(n_of_hex a, n_of_hex b)] | _ -> failwith "bad B")
    | 'W' -> (match split_on ':' tok with
        | [_; a; p; v] ->
            (* a word makes its page present (as in the C driver) *)
            c.pages <- (n_of_hex a, page_of p) :: c.pages;
            c.words <- ((n_of_hex a, n_of_hex p), n_of_hex v) :: c.words
        | _ -> failwith "bad W")
    | 'Q' -> (match split_on ':' tok with
        | [_; a; p] -> c.queries <- Q { fa_addr = n_of_hex p; fa_as = z_of_hex a } :: c.queries
        | _ -> failwith "bad Q")
    | 'V' -> (match split_on ':' tok with
        | [_; a; p; t] ->
            c.queries <- V ({ fa_addr = n_of_hex p; fa_as = z_of_hex a }, z_of_hex t) :: c.queries
        | _ -> failwith "bad V")
    | _ -> failwith ("bad token " ^ tok)) (words line);
  c.queries <- Stdlib.List.rev c.queries;
  c.words <- Stdlib.List.rev c.words;
  c

let osys_of (c : case) : sys option =
  if not c.sysp then None else
  let maps = Array.map (function
    | None -> None
    | Some sets ->
        (match SysEnv.build_map [] sets with
         | Some m -> Some m
         | None -> failwith "map_set failed in the model")) c.maps in
  Some { s_map = (fun i -> let k = int_of_n i in if k < 5 then maps.(k) else None);
         s_meth = Array.to_list c.meths }

let show_fa (fa : fulladdr) = hex_of_z fa.fa_as ^ ":" ^ hex_of_n fa.fa_addr

let lim = Some coq_MAX_OP_DEPTH
let depth_budget = nat_of_int 40
let wfuel = nat_of_int 24

let caps_of_query (c : case) = function
  | Q fa -> c.caps, c.opret, fa
  | V (fa, t) -> caps_of t, BinNums.Z0, fa

let run_case (line : string) : string =
  let c = parse_case line in
  let osys = osys_of c in
  let gp = SysEnv.env_gp c.pages c.words c.bigs c.failst in
  let big = SysEnv.env_big c.bigs in
  let backing = SysEnv.env_backing c.backing in
  let cache = ref ReadCache.init_cache in
  String.concat ";" (Stdlib.List.map (fun q ->
    let caps, opret, fa = caps_of_query c q in
    match SysEnv.op_depth lim osys c.rcaps gp big backing StepGlue.step_first StepGlue.step_next
            StepGlue.step_ptesz wfuel depth_budget Datatypes.O (fun _ -> opret) caps fa !cache with
    | ((Done (st, calls), d), c') ->
        cache := c';
        let a = match q, calls with
          | Q _, [] -> "-"
          | V (fa, _), [] -> show_fa fa
          | _, x :: _ -> show_fa x in
        Printf.sprintf "st=%s n=%d a=%s d=%d" (hex_of_z st) (Stdlib.List.length calls) a (int_of_nat d)
    | ((NoFuel, _), _) -> "FUEL"
    | ((Undefined, _), c') -> cache := c'; "UB") c.queries)

(* ---- spec mode: judge the implementation's own answers ---- *)
let parse_answer (s : string) =
  match words s with
  | [st; n; a; d] ->
      let v x = String.sub x (String.index x '=' + 1) (String.length x - String.index x '=' - 1) in
      let fa = if v a = "-" then None else
        (match split_on ':' (v a) with
         | [x; y] -> Some { fa_addr = n_of_hex y; fa_as = z_of_hex x } | _ -> failwith "bad a=") in
      Some (z_of_hex (v st), int_of_string (v n), fa, int_of_string (v d))
  | _ -> None

let clause = function
  | 0 -> "ok"
  | 1 -> "operation invoked other than once on success / status is not the operation's"
  | 2 -> "operation invoked on an address outside the usable address spaces"
  | 3 -> "address already in a usable space not passed through unchanged"
  | 4 -> "result is not a composition of the methods the maps select"
  | 5 -> "recursion deeper than the library bound"
  | k -> "clause " ^ string_of_int k

let spec_case (line : string) : string =
  match split_on '|' line with
  | [sysl; ans] ->
      let c = parse_case (String.trim sysl) in
      (match osys_of c with
       | None -> "ok"       (* no system: nothing but pass-through, judged by the model tie *)
       | Some s ->
      let mem = mem_of (SysEnv.env_gp c.pages c.words c.bigs c.failst) (SysEnv.env_big c.bigs) in
      let answers = Stdlib.List.map String.trim (split_on ';' ans) in
      if Stdlib.List.length answers <> Stdlib.List.length c.queries then "answer count mismatch" else
      String.concat ";" (Stdlib.List.map2 (fun q a ->
        match parse_answer a with
        | None -> "unparsable: " ^ a
        | Some (st, n, fa, d) ->
            let caps, opret, src = caps_of_query c q in
            let calls = match n, fa with
              | 0, _ -> []
              | 1, Some x -> [x]
              | k, Some x -> Stdlib.List.init k (fun _ -> x)
              | _, None -> [] in
            (* fulladdr_conv with no call must leave *faddr alone *)
            let conv_bad = match q, n, fa with
              | V (fa0, _), 0, Some x -> x <> fa0 | _ -> false in
            if conv_bad then "fulladdr_conv changed the address without a successful conversion" else
            if c.backing <> [] then
              clause (int_of_n (SysSpec.judge_basic caps opret src st calls (nat_of_int d)))
            else
              clause (int_of_n (SysSpec.judge s c.rcaps mem StepGlue.step_first StepGlue.step_next
                                  StepGlue.step_ptesz wfuel (nat_of_int (d + 1)) (nat_of_int 2)
                                  caps opret src st calls (nat_of_int d)))) c.queries answers))
  | _ -> failwith "bad spec line"

let engines = [ "sysop", run_case; "sysop-spec", spec_case ]
