(* engine "sysop" (C09): one translation system + queries per line.  Tokens:
     C:<caps> R:<read caps> O:<op status> F:<get-page failure status> S:<0|1 sys present>
     M<i>=<addr>:<endoff>:<meth>,...    map i built by addrxlat_map_set calls ("M<i>=" empty map)
     T<slot>=N | B | U:<st>:<as>:<key> | L:<tas>:<off> | P:<tas>:<ras>:<raddr>:<64|32>:<mask>:<f0>.<f1>..|-
              | K:<tas>:<endoff>:<o>.<d>,..|- | A:<tas>:<bas>:<baddr>:<shift>:<elemsz>:<valsz>
     G:<as>:<page>  W:<as>:<addr>:<val>
     Q:<as>:<addr> (addrxlat_op)   V:<as>:<addr>:<target as> (addrxlat_fulladdr_conv)
   all numbers hex, signed where the C type is.  Output, per query, joined by ';':
     st=<status> n=<operation calls> a=<as>:<addr>|- d=<nesting depth>   or UB / FUEL
   spec mode ("sysop-spec"): the same line followed by " | " and the implementation's
   output; prints "ok" or the failed clause per query. *)
open Util
open ChainInterp

type query = Q of fulladdr | V of fulladdr * BinNums.coq_Z

type case = {
  mutable caps : BinNums.coq_N; mutable rcaps : BinNums.coq_N;
  mutable opret : BinNums.coq_Z; mutable failst : BinNums.coq_Z; mutable sysp : bool;
  maps : (BinNums.coq_N * BinNums.coq_N * BinNums.coq_Z) list option array;
  meths : coq_method array;
  mutable pages : (BinNums.coq_Z * BinNums.coq_N) list;
  mutable words : ((BinNums.coq_Z * BinNums.coq_N) * BinNums.coq_N) list;
  mutable queries : query list }

let after_eq s = let i = String.index s '=' in String.sub s (i + 1) (String.length s - i - 1)
let list_or_empty sep s = if s = "-" || s = "" then [] else split_on sep s

let parse_meth (s : string) : coq_method =
  match split_on ':' s with
  | ["N"] -> MNone
  | ["B"] -> MBadKind
  | ["U"; st; a; k] -> MCustom (SysEnv.env_custom (z_of_hex st) (z_of_hex a) (n_of_hex k))
  | ["L"; tas; off] -> MLinear (z_of_hex tas, n_of_hex off)
  | ["P"; tas; ras; raddr; w; mask; fl] ->
      MPgt (z_of_hex tas, { fa_addr = n_of_hex raddr; fa_as = z_of_hex ras }, (w = "64"),
            n_of_hex mask, Stdlib.List.map n_of_hex (list_or_empty '.' fl))
  | ["K"; tas; eo; tbl] ->
      MLookup (z_of_hex tas, n_of_hex eo,
               Stdlib.List.map (fun p -> match split_on '.' p with
                 | [o; d] -> (n_of_hex o, n_of_hex d) | _ -> failwith "bad lookup elem")
                 (list_or_empty ',' tbl))
  | ["A"; tas; bas; baddr; sh; esz; vsz] ->
      MMemarr (z_of_hex tas, { fa_addr = n_of_hex baddr; fa_as = z_of_hex bas },
               n_of_hex sh, n_of_hex esz, n_of_hex vsz)
  | _ -> failwith ("bad method " ^ s)

let parse_case (line : string) : case =
  let c = { caps = N0; rcaps = N0; opret = Z0; failst = Z0; sysp = true;
            maps = Array.make 5 None; meths = Array.make 16 MNone;
            pages = []; words = []; queries = [] } in
  Stdlib.List.iter (fun tok ->
    match tok.[0] with
    | 'C' -> c.caps <- n_of_hex (String.sub tok 2 (String.length tok - 2))
    | 'R' -> c.rcaps <- n_of_hex (String.sub tok 2 (String.length tok - 2))
    | 'O' -> c.opret <- z_of_hex (String.sub tok 2 (String.length tok - 2))
    | 'F' -> c.failst <- z_of_hex (String.sub tok 2 (String.length tok - 2))
    | 'S' -> c.sysp <- (tok <> "S:0")
    | 'M' ->
        let i = Char.code tok.[1] - 48 in
        c.maps.(i) <- Some (Stdlib.List.map (fun r -> match split_on ':' r with
          | [a; e; m] -> ((n_of_hex a, n_of_hex e), z_of_hex m) | _ -> failwith "bad set")
          (list_or_empty ',' (after_eq tok))
          |> Stdlib.List.map (fun ((a, e), m) -> (a, e, m)))
    | 'T' ->
        let i = String.index tok '=' in
        let slot = int_of_string ("0x" ^ String.sub tok 1 (i - 1)) in
        c.meths.(slot) <- parse_meth (after_eq tok)
    | 'G' -> (match split_on ':' tok with
        | [_; a; p] -> c.pages <- (z_of_hex a, n_of_hex p) :: c.pages | _ -> failwith "bad G")
    | 'W' -> (match split_on ':' tok with
        | [_; a; p; v] ->
            (* a word makes its page present (as in the C driver) *)
            let pg = BinNat.N.ldiff (n_of_hex p) (n_of_hex "fff") in
            c.pages <- (z_of_hex a, pg) :: c.pages;
            c.words <- ((z_of_hex a, n_of_hex p), n_of_hex v) :: c.words
        | _ -> failwith "bad W")
    | 'Q' -> (match split_on ':' tok with
        | [_; a; p] -> c.queries <- Q { fa_addr = n_of_hex p; fa_as = z_of_hex a } :: c.queries
        | _ -> failwith "bad Q")
    | 'V' -> (match split_on ':' tok with
        | [_; a; p; t] ->
            c.queries <- V ({ fa_addr = n_of_hex p; fa_as = z_of_hex a }, z_of_hex t) :: c.queries
        | _ -> failwith "bad V")
    | _ -> failwith ("bad token " ^ tok)) (words line);
  c.queries <- Stdlib.List.rev c.queries;
  c.words <- Stdlib.List.rev c.words;
  c

(* Coq triples are nested pairs after extraction *)
let osys_of (c : case) : sys option =
  if not c.sysp then None else
  let maps = Array.map (function
    | None -> None
    | Some sets ->
        (match SysEnv.build_map [] (Stdlib.List.map (fun (a, e, m) -> ((a, e), m)) sets) with
         | Some m -> Some m
         | None -> failwith "map_set failed in the model")) c.maps in
  Some { s_map = (fun i -> let k = int_of_n i in if k < 5 then maps.(k) else None);
         s_meth = Array.to_list c.meths }

let show_fa (fa : fulladdr) = hex_of_z fa.fa_as ^ ":" ^ hex_of_n fa.fa_addr

let lim = Some coq_MAX_OP_DEPTH
let depth_budget = nat_of_int 40

let run_query (c : case) (osys : sys option) (q : query) : string =
  let mem = SysEnv.env_mem c.pages c.words c.failst in
  let caps, opret, fa = match q with
    | Q fa -> c.caps, (fun _ -> c.opret), fa
    | V (fa, t) -> BinNat.N.shiftl (Npos Coq_xH) (match t with Zpos p -> Npos p | _ -> N0),
                   (fun _ -> BinNums.Z0), fa in
  let bad_target = match q with V (_, t) -> let k = int_of_z t in k < 0 || k > 63 | _ -> false in
  if bad_target then "UB" else
  match SysEnv.op_depth depth_budget Datatypes.O lim osys c.rcaps mem opret caps fa with
  | (Done (st, calls), d) ->
      let a = match q, calls with
        | Q _, [] -> "-"
        | V (fa, _), [] -> show_fa fa
        | _, x :: _ -> show_fa x in
      Printf.sprintf "st=%s n=%d a=%s d=%d" (hex_of_z st) (Stdlib.List.length calls) a (int_of_nat d)
  | (NoFuel, _) -> "FUEL"
  | (Undefined, _) -> "UB"

let run_case (line : string) : string =
  let c = parse_case line in
  let osys = osys_of c in
  String.concat ";" (Stdlib.List.map (run_query c osys) c.queries)

(* ---- spec mode: judge the implementation's own answers ---- *)
let parse_answer (s : string) =
  (* st=<z> n=<k> a=<as>:<addr>|- d=<k> *)
  match words s with
  | [st; n; a; d] ->
      let v x = String.sub x (String.index x '=' + 1) (String.length x - String.index x '=' - 1) in
      let fa = if v a = "-" then None else
        (match split_on ':' (v a) with
         | [x; y] -> Some { fa_addr = n_of_hex y; fa_as = z_of_hex x } | _ -> failwith "bad a=") in
      Some (z_of_hex (v st), int_of_string (v n), fa, int_of_string (v d))
  | _ -> None

let clause = function
  | 0 -> "ok"
  | 1 -> "operation invoked other than once on success / status is not the operation's"
  | 2 -> "operation invoked on an address outside the usable address spaces"
  | 3 -> "address already in a usable space not passed through unchanged"
  | 4 -> "result is not a composition of the methods the maps select"
  | 5 -> "recursion deeper than the library bound"
  | k -> "clause " ^ string_of_int k

let spec_case (line : string) : string =
  match split_on '|' line with
  | [sysl; ans] ->
      let c = parse_case (String.trim sysl) in
      (match osys_of c with
       | None -> "ok"       (* no system: nothing but pass-through, judged by the model tie *)
       | Some s ->
      let mem = SysEnv.env_mem c.pages c.words c.failst in
      let answers = Stdlib.List.map String.trim (split_on ';' ans) in
      if Stdlib.List.length answers <> Stdlib.List.length c.queries then "answer count mismatch" else
      String.concat ";" (Stdlib.List.map2 (fun q a ->
        match parse_answer a with
        | None -> "unparsable: " ^ a
        | Some (st, n, fa, d) ->
            let caps, opret, src = match q with
              | Q fa0 -> c.caps, c.opret, fa0
              | V (fa0, t) -> BinNat.N.shiftl (Npos Coq_xH) (match t with Zpos p -> Npos p | _ -> N0),
                              BinNums.Z0, fa0 in
            let calls = match q, n, fa with
              | _, 0, _ -> []
              | _, 1, Some x -> [x]
              | _, k, Some x -> Stdlib.List.init k (fun _ -> x)
              | _, _, None -> [] in
            (* fulladdr_conv with no call must leave *faddr alone *)
            let conv_bad = match q, n, fa with
              | V (fa0, _), 0, Some x -> x <> fa0 | _ -> false in
            if conv_bad then "fulladdr_conv changed the address without a successful conversion" else
            clause (int_of_n (SysSpec.judge s c.rcaps mem (nat_of_int (d + 1)) (nat_of_int 2)
                                caps opret src st calls (nat_of_int d)))) c.queries answers))
  | _ -> failwith "bad spec line"

let engines = [ "sysop", run_case; "sysop-spec", spec_case ]
