(* engine "lkcdsplit": one case per line (hex numbers)
     filepos idx3 off0,off1,...,offn-1 | idx [| follower fail]
   (`-` = empty offs list; follower = `-` or the idx3 of a dummy block that follows,
   n = 0, filepos = 0x7000000000 + idx3; fail = `-` or letters m t h = the ctx_malloc of the
   tail / the realloc of the tail's offs / the realloc of the head's offs fails, n u = the
   ctx_malloc / the realloc of the offs of a SECOND or later tail block fails (fixes/84 only),
   A = the C driver builds the block with alloc = 4096, which the model cannot observe).
   Output, as harness/lkcdsplit_drv.c: "<status>[Z] blk;blk;..." with
   blk = "filepos:idx3:off,off,..." (`-` = no entries), ":n=<n>" appended when the head's count
   exceeds its array (failed realloc whose status is ignored).
   "lkcdsplit" models the repaired code (fixes 82 + 83), "lkcdsplit-pinned" /repo HEAD,
   "lkcdsplit-seeded" the repaired code with the seeded change C04-a2, "lkcdsplit-84" the
   repaired code plus the proposed fixes/84 (the tail is cut into runs).
   engine "lkcdsplit-spec": "<case> => <implementation output>" -> "ok" or the reason: every
   level-3 index other than the scanned page's must look up (extracted chain_lookup on the
   printed chain) as the finite map of the original block says (extracted denote); the scanned
   page itself must not be indexed; the printed chain must be sorted and well formed.  A lookup
   that changed at a known tail entry whose file offset is not above the tail's first page is
   reported as "unordered-tail: ..." (the block format cannot express it). *)
open Util
open BinNums
open LkcdSplit

let follow_pos = n_of_hex "7000000000"

let parse_offs (s : string) : coq_N list =
  if s = "-" then [] else Stdlib.List.map n_of_hex (split_on ',' s)

type case = { blk : block; idx : coq_N; follower : block list; orc : oracle }

let n_add a b = n_of_int (int_of_n a + int_of_n b)        (* small numbers only *)

let parse_case (line : string) : case =
  match Stdlib.List.map String.trim (split_on '|' line) with
  | left :: idx :: rest ->
      let blk = (match words left with
        | [fp; i3; offs] -> { filepos = n_of_hex fp; idx3 = n_of_hex i3; offs = parse_offs offs }
        | _ -> failwith "bad block") in
      let (fo, fl) = (match rest with
        | [opts] -> (match words opts with
            | [a; b] -> (a, b) | [a] -> (a, "-") | _ -> ("-", "-"))
        | _ -> ("-", "-")) in
      let follower = if fo = "-" then [] else
        let i3 = n_of_hex fo in
        [{ filepos = n_of_hex (Printf.sprintf "%x" (0x7000000000 + int_of_n i3)); idx3 = i3; offs = [] }] in
      let has c = String.contains fl c in
      { blk; idx = n_of_hex idx; follower;
        orc = { fail_malloc = has 'm'; fail_tail = has 't'; fail_head = has 'h';
                fail_malloc2 = has 'n'; fail_tail2 = has 'u' } }
  | _ -> failwith "bad case"

let show_offs (l : coq_N list) : string =
  if l = [] then "-" else String.concat "," (Stdlib.List.map hex_of_n l)

let show_block (b : block) : string =
  Printf.sprintf "%s:%s:%s" (hex_of_n b.filepos) (hex_of_n b.idx3) (show_offs b.offs)

let show_chain (c : block list) : string = String.concat ";" (Stdlib.List.map show_block c)

let rec take k l = if k <= 0 then [] else match l with [] -> [] | x :: r -> x :: take (k - 1) r

let run_variant (v : variant) (line : string) : string =
  let c = parse_case line in
  match split_pfn_block v c.orc c.blk c.idx with
  | SplitOk ch -> "0 " ^ show_chain (ch @ c.follower)
  | SplitErr -> "1 " ^ show_chain (c.blk :: c.follower)
  | SplitOOB -> "OOB"
  | SplitUB -> "UB"
  | SplitFreed ch -> "0Z " ^ show_chain (ch @ c.follower)
  | SplitStale (n, ch) ->
      (match ch with
       | h :: tl ->
           let len = Stdlib.List.length h.offs and n = int_of_n n in
           let hs = Printf.sprintf "%s:%s:%s" (hex_of_n h.filepos) (hex_of_n h.idx3)
                      (show_offs (take n h.offs)) in
           let hs = if n > len then hs ^ Printf.sprintf ":n=%x" n else hs in
           "0 " ^ String.concat ";" (hs :: Stdlib.List.map show_block (tl @ c.follower))
       | [] -> "?")

(* ---- spec mode ---- *)
let parse_block (s : string) : block * string option =
  match split_on ':' s with
  | [fp; i3; offs] -> ({ filepos = n_of_hex fp; idx3 = n_of_hex i3; offs = parse_offs offs }, None)
  | [fp; i3; offs; extra] -> ({ filepos = n_of_hex fp; idx3 = n_of_hex i3; offs = parse_offs offs }, Some extra)
  | _ -> failwith "bad block in output"

let show_lk = function LkOff o -> "offset " ^ hex_of_n o | LkNone -> "not indexed" | LkOOB -> "OOB"

let find_sub (s : string) (sub : string) : int option =
  let n = String.length s and m = String.length sub in
  let rec go i = if i + m > n then None else if String.sub s i m = sub then Some i else go (i + 1) in
  go 0

let spec_case (line : string) : string =
  match find_sub line "=>" with
  | None -> failwith "bad spec line"
  | Some k ->
  let case = String.trim (String.sub line 0 k)
  and impl = String.trim (String.sub line (k + 2) (String.length line - k - 2)) in
  let c = parse_case case in
  let orig = c.blk :: c.follower in
  match words impl with
  | [st; chain] ->
      let parsed = Stdlib.List.map parse_block (split_on ';' chain) in
      let out = Stdlib.List.map fst parsed in
      let injected = c.orc.fail_malloc || c.orc.fail_tail || c.orc.fail_head
                     || c.orc.fail_malloc2 || c.orc.fail_tail2 in
      if String.contains st 'Z' then
        "freed-offs: the head's array was freed by realloc(ptr, 0) and is still referenced by the block"
      else if Stdlib.List.exists (fun (_, e) -> e <> None) parsed then
        "head-count: the head's count exceeds its array after a failed realloc whose status is ignored"
      else if st <> "0" && st <> "1" then "unexpected status " ^ st
      else if st = "1" && not injected then "error status without an allocation failure"
      else begin
        let i3 = int_of_n c.blk.idx3 and n = Stdlib.List.length c.blk.offs in
        let scanned = i3 + int_of_n c.idx in
        let hi = Stdlib.List.fold_left (fun m b ->
          max m (int_of_n b.idx3 + Stdlib.List.length b.offs + 18)) (i3 + n + 18) (orig @ out) in
        let hi = min hi 70000 in
        let lo = max 0 (i3 - 2) in
        let bad = ref None in
        let j = ref lo in
        while !bad = None && !j <= hi do
          let jn = n_of_int !j in
          let want = lk_of_option (denote orig jn) in
          let got = chain_lookup out jn in
          if st = "1" then begin
            if got <> want then
              bad := Some (Printf.sprintf "error path changed index %x: %s, was %s" !j (show_lk got) (show_lk want))
          end else if !j = scanned then begin
            if got <> LkNone then
              bad := Some (Printf.sprintf "the scanned page %x is still indexed (%s)" !j (show_lk got))
          end else if got <> want then begin
            (* classify: a known tail entry that is not behind the tail's first page in the file *)
            let unordered =
              (match first_known c.blk.offs c.idx with
               | Some p ->
                   let k = !j - i3 - 1 in
                   (match rd c.blk.offs p, (if k > int_of_n p then rd c.blk.offs (n_of_int k) else None) with
                    | Some vp, Some vk ->
                        (* exactly what the 32-bit wrap produces: 2^32 too far, or (equal
                           offsets) a gap *)
                        vk <> N0 &&
                        ((int_of_n vk < int_of_n vp &&
                          got = LkOff (BinNat.N.add c.blk.filepos
                                         (BinNat.N.add vk (n_of_hex "100000000"))))
                         || (vk = vp && got = LkNone))
                    | _ -> false)
               | None -> false) in
            bad := Some (Printf.sprintf "%sindex %x looks up as %s after the split, the block said %s"
                           (if unordered then "unordered-tail: " else "lookup changed: ")
                           !j (show_lk got) (show_lk want))
          end else if lk_of_option (denote out jn) <> got then
            bad := Some (Printf.sprintf "index %x: lookup and finite map of the result differ" !j);
          incr j
        done;
        if !bad = None && not (chain_sortedb out) then bad := Some "the resulting chain is not sorted / overlaps";
        if !bad = None && not (Stdlib.List.for_all wf_blockb out) then bad := Some "a block of the result is not well formed";
        match !bad with Some why -> why | None -> "ok"
      end
  | [ "OOB" ] | [ "UB" ] -> "the model left its domain: " ^ impl
  | _ -> "unparsable implementation output: " ^ impl

let engines = [ "lkcdsplit", run_variant repaired;
                "lkcdsplit-pinned", run_variant pinned;
                "lkcdsplit-seeded", run_variant seeded;
                "lkcdsplit-84", run_variant repaired84;
                "lkcdsplit-spec", spec_case ]
