(* engine "xen" (C19): see harness/xen_drv.c for the case syntax.
     I <junk> <okend> <pfn>:<ok>,... | <probe> ...
     X <a|n> <pfn>:<gmfn>,... | <as>:<addr> ...
   engine "xen-spec": the same line followed by " | <implementation's output>";
   prints "ok" or the first contradiction with XenSpec. *)
open Util
open Pfn2IdxModel
open XcCoreModel

let sh12 = n_of_int 12
let page_mask = n_of_int 0xfff

let split_bar (line : string) : string list = Stdlib.List.map String.trim (split_on '|' line)

let parse_pairs (s : string) : (string * string) list =
  if s = "" then [] else
  Stdlib.List.map (fun e -> match split_on ':' e with
    | [a; b] -> (a, b) | _ -> failwith ("bad pair " ^ e)) (split_on ',' s)

let show_map (m : pmap) : string =
  "R" ^ String.concat "," (Stdlib.List.map (fun r ->
          hex_of_n r.r_pfn ^ ":" ^ hex_of_n r.r_idx ^ ":" ^ hex_of_z r.r_len) m.ranges)
  ^ " S" ^ String.concat "," (Stdlib.List.map (fun s ->
          hex_of_n s.s_pfn ^ ":" ^ hex_of_n s.s_idx) m.singles)

(* word stored by the driver at byte offset [off] of page [idx] *)
let page_word (idx : BinNums.coq_N) (addr : BinNums.coq_N) : BinNums.coq_N =
  BinNat.N.add (BinNat.N.mul idx (n_of_int 65536)) (BinNat.N.coq_land addr page_mask)

let nodata_read = "R3:0"          (* KDUMP_ERR_NODATA *)
let nodata_conv = "C6:0"          (* ADDRXLAT_ERR_NODATA *)

let parse_I (hd : string) =
  match words hd with
  | "I" :: junk :: okend :: rest ->
      let frames = parse_pairs (match rest with [] -> "" | f :: _ -> f) in
      (n_of_hex junk, okend = "1", Stdlib.List.map (fun (p, ok) -> (n_of_hex p, ok = "1")) frames)
  | _ -> failwith "bad I case"

let parse_X (hd : string) =
  match words hd with
  | "X" :: mode :: rest ->
      let es = parse_pairs (match rest with [] -> "" | f :: _ -> f) in
      (mode.[0] = 'n', Stdlib.List.map (fun (p, g) -> (n_of_hex p, n_of_hex g)) es)
  | _ -> failwith "bad X case"

let parse_probe (s : string) : bool * BinNums.coq_N =
  (s.[0] = 'm', n_of_hex (String.sub s 2 (String.length s - 2)))

let run_case (line : string) : string =
  match split_bar line with
  | hd :: probes :: _ when hd.[0] = 'I' ->
      let (junk, okend, frames) = parse_I hd in
      (match build junk frames okend with
       | Failed i -> "F" ^ hex_of_n i
       | Built m ->
           "B " ^ show_map m ^ " Q" ^
           String.concat "," (Stdlib.List.map (fun p -> hex_of_n (search m (n_of_hex p))) (words probes)))
  | hd :: probes :: _ when hd.[0] = 'X' ->
      let (na, es) = parse_X hd in
      let r = if na
        then make_nonauto BinNums.N0 BinNums.N0 sh12
               (Stdlib.List.map (fun (p, g) -> (((p, g), true), true)) es) true true
        else make_auto BinNums.N0 sh12 (Stdlib.List.map (fun (p, _) -> (p, true)) es) true in
      (match r with
       | XFailed -> "E1"
       | XBuilt x ->
           "O" ^ String.concat "" (Stdlib.List.map (fun pr ->
             let (mach, addr) = parse_probe pr in
             let idx = page_of x mach addr in
             let rd = if idx = coq_IDX_NONE then nodata_read
                      else "R0:" ^ hex_of_n (page_word idx addr) in
             let cv = if not na then "" else
               (match (if mach then m2p_step x addr else p2m_step x addr) with
                | Xlat a -> " C0:" ^ hex_of_n a
                | NoData -> " " ^ nodata_conv
                | ReadErr -> " C-readerr") in
             " " ^ rd ^ cv) (words probes)))
  | _ -> failwith "bad case"

(* ---- judged by the spec -------------------------------------------------- *)
let spec_case (line : string) : string =
  match split_bar line with
  | [hd; probes; impl] when hd.[0] = 'I' ->
      let (_, okend, frames) = parse_I hd in
      let all_ok = okend && Stdlib.List.for_all snd frames in
      let l = Stdlib.List.map fst frames in
      if String.length impl > 0 && impl.[0] = 'F' then
        (if all_ok then "index construction failed although every allocation succeeded" else "ok")
      else begin
        (* the answers are after " Q" *)
        let q = match Stdlib.List.rev (words impl) with
          | last :: _ when last.[0] = 'Q' -> String.sub last 1 (String.length last - 1)
          | _ -> failwith "no answers" in
        let answers = if q = "" then [] else split_on ',' q in
        let ps = words probes in
        if Stdlib.List.length ps <> Stdlib.List.length answers then "wrong number of answers" else
        let bad = Stdlib.List.filter (fun (p, a) ->
          hex_of_n (XenSpec.enc (XenSpec.find_index (n_of_hex p) l)) <> a)
          (Stdlib.List.combine ps answers) in
        match bad with
        | [] -> "ok"
        | (p, a) :: _ ->
            "frame " ^ p ^ ": index " ^ a ^ " but its position in the page list is " ^
            hex_of_n (XenSpec.enc (XenSpec.find_index (n_of_hex p) l))
      end
  | [hd; probes; impl] when hd.[0] = 'X' ->
      let (na, es0) = parse_X hd in
      let es = if na then es0 else Stdlib.List.map (fun (p, _) -> (p, p)) es0 in
      if String.length impl > 0 && impl.[0] = 'E' then "a well-formed domain dump failed to open: " ^ impl else
      let toks = match words impl with "O" :: t -> t | _ -> failwith "bad impl line" in
      let rec go ps toks = match ps with
        | [] -> (match toks with [] -> "ok" | _ -> "too many answers")
        | pr :: ps' ->
            let (mach, addr) = parse_probe pr in
            let page = if mach && na then XenSpec.page_by_mfn es (BinNat.N.shiftr addr sh12)
                       else XenSpec.page_by_pfn es (BinNat.N.shiftr addr sh12) in
            let want_r = match page with
              | None -> nodata_read
              | Some i -> "R0:" ^ hex_of_n (page_word (n_of_int (int_of_nat i)) addr) in
            (match toks with
             | r :: rest ->
                 if r <> want_r then
                   Printf.sprintf "read %s gives %s, the page list says %s" pr r want_r
                 else if not na then go ps' rest
                 else (match rest with
                   | c :: rest' ->
                       let want_c = match (if mach then XenSpec.m2p_spec es sh12 addr
                                           else XenSpec.p2m_spec es sh12 addr) with
                         | None -> nodata_conv
                         | Some a -> "C0:" ^ hex_of_n a in
                       (* a pair whose other frame has no 64-bit address is outside the
                          round-trip clause ("listed ... address"): not judged *)
                       let in_domain = match (if mach then XenSpec.m2p_spec es sh12 addr
                                              else XenSpec.p2m_spec es sh12 addr) with
                         | Some a -> String.length (hex_of_n a) <= 16 | None -> true in
                       if in_domain && c <> want_c then
                         Printf.sprintf "conversion of %s gives %s, the p2m list says %s" pr c want_c
                       else go ps' rest'
                   | [] -> "missing conversion answer")
             | [] -> "missing answer") in
      go (words probes) toks
  | _ -> failwith "bad spec line"

let engines = [ "xen", run_case; "xen-spec", spec_case ]
