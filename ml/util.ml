(* Parsing and printing only: hex strings <-> extracted N / Z / positive / nat. *)
open BinNums

let hexval c = match c with
  | '0'..'9' -> Char.code c - 48
  | 'a'..'f' -> Char.code c - 87
  | 'A'..'F' -> Char.code c - 55
  | _ -> failwith ("bad hex digit: " ^ String.make 1 c)

(* bits, most significant first *)
let bits_of_hex (s : string) : bool list =
  let l = ref [] in
  String.iter (fun c ->
    let v = hexval c in
    l := (v land 1 <> 0) :: (v land 2 <> 0) :: (v land 4 <> 0) :: (v land 8 <> 0) :: !l) s;
  let rec strip = function false :: t -> strip t | x -> x in
  strip (Stdlib.List.rev !l)

let n_of_hex (s : string) : coq_N =
  match bits_of_hex s with
  | [] -> N0
  | _ :: rest ->
      Npos (Stdlib.List.fold_left (fun p b -> if b then Coq_xI p else Coq_xO p) Coq_xH rest)

let rec bits_of_pos (p : positive) (acc : bool list) : bool list =
  match p with
  | Coq_xH -> true :: acc
  | Coq_xO q -> bits_of_pos q (false :: acc)
  | Coq_xI q -> bits_of_pos q (true :: acc)

let hex_of_pos (p : positive) : string =
  let bits = bits_of_pos p [] in            (* msb first *)
  let n = Stdlib.List.length bits in
  let pad = (4 - n mod 4) mod 4 in
  let bits = Stdlib.List.init pad (fun _ -> false) @ bits in
  let b = Buffer.create 16 in
  let rec go = function
    | a :: b1 :: c :: d :: t ->
        let v = (if a then 8 else 0) + (if b1 then 4 else 0) + (if c then 2 else 0) + (if d then 1 else 0) in
        Buffer.add_char b "0123456789abcdef".[v]; go t
    | _ -> () in
  go bits; Buffer.contents b

let hex_of_n = function N0 -> "0" | Npos p -> hex_of_pos p

let z_of_hex (s : string) : coq_Z =
  if String.length s > 0 && s.[0] = '-' then
    (match n_of_hex (String.sub s 1 (String.length s - 1)) with N0 -> Z0 | Npos p -> Zneg p)
  else (match n_of_hex s with N0 -> Z0 | Npos p -> Zpos p)

let hex_of_z = function Z0 -> "0" | Zpos p -> hex_of_pos p | Zneg p -> "-" ^ hex_of_pos p

let rec int_of_pos = function
  | Coq_xH -> 1 | Coq_xO p -> 2 * int_of_pos p | Coq_xI p -> 2 * int_of_pos p + 1
let int_of_n = function N0 -> 0 | Npos p -> int_of_pos p
let int_of_z = function Z0 -> 0 | Zpos p -> int_of_pos p | Zneg p -> - (int_of_pos p)
let rec int_of_nat = function Datatypes.O -> 0 | Datatypes.S n -> 1 + int_of_nat n
let rec nat_of_int i = if i <= 0 then Datatypes.O else Datatypes.S (nat_of_int (i - 1))
let n_of_int i = n_of_hex (Printf.sprintf "%x" i)
let z_of_int i = if i < 0 then (match n_of_int (-i) with N0 -> Z0 | Npos p -> Zneg p)
                 else (match n_of_int i with N0 -> Z0 | Npos p -> Zpos p)

let split_on c s = String.split_on_char c s
let words s = Stdlib.List.filter (fun x -> x <> "") (split_on ' ' s)

let read_lines (path : string) : string list =
  let ic = open_in path in
  let rec go acc = match input_line ic with
    | l -> go (l :: acc)
    | exception End_of_file -> close_in ic; Stdlib.List.rev acc in
  go []
