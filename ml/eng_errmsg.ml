(* engine "errmsg" (C16): one case per line: "<bufsz> <op> ..."
     A:<hex text or ->:<ok>   X:<ok>   C
   output per op: N | B<off>=<hex> | D<off>=<hex> | FAULT:<what> *)
open Util
open ErrModel

let bytes_of_hex (s : string) : BinNums.coq_N list =
  if s = "-" || s = "" then [] else
  Stdlib.List.init (String.length s / 2) (fun i -> n_of_hex (String.sub s (2 * i) 2))

let hex_of_bytes (l : BinNums.coq_N list) : string =
  String.concat "" (Stdlib.List.map (fun b -> Printf.sprintf "%02x" (int_of_n b)) l)

let parse_op (s : string) =
  match split_on ':' s with
  | ["A"; t; ok] -> OpAdd (Some (bytes_of_hex t), ok = "1")
  | ["X"; ok] -> OpAdd (None, ok = "1")
  | ["C"] -> OpClear
  | _ -> failwith ("bad op " ^ s)

let reg_name = function RBuf -> "buf" | RDyn -> "dyn" | RLbuf -> "lbuf"

let show_fault = function
  | OOB_read (r, i) -> Printf.sprintf "FAULT:oob-read:%s[%d]" (reg_name r) (int_of_nat i)
  | OOB_write (r, i) -> Printf.sprintf "FAULT:oob-write:%s[%d]" (reg_name r) (int_of_nat i)
  | PtrUnder r -> "FAULT:ptr-under:" ^ reg_name r
  | Stale -> "FAULT:stale-pointer"

let show_state (s : est) : string =
  match s.e_str with
  | None -> "N"
  | Some (r, off) ->
      (match err_str s with
       | Some (Some t) ->
           Printf.sprintf "%s%d=%s" (match r with RBuf -> "B" | RDyn -> "D" | RLbuf -> "L")
             (int_of_nat off) (hex_of_bytes t)
       | _ -> "FAULT:unterminated")

let show_res = function Ok s -> show_state s | Fault f -> show_fault f

(* lbuf_extra: VERIF_ERRMSG_LBUF_EXTRA=0 models the pinned tree (defect 13), default 2 = repaired *)
let lbuf_extra =
  match Sys.getenv_opt "VERIF_ERRMSG_LBUF_EXTRA" with Some s -> int_of_string s | None -> 2

let run_case (line : string) : string =
  match words line with
  | [] -> ""
  | bs :: ops ->
      let bufsz = int_of_string bs in
      let buf0 = Stdlib.List.init bufsz (fun _ -> n_of_int 35) in
      let tr = run_inst (nat_of_int lbuf_extra) buf0 (Stdlib.List.map parse_op ops) in
      String.concat " " (Stdlib.List.map show_res tr)

(* spec mode: "<ok> <old-hex|-> <msg-hex|-> <new-hex|->": is the implementation's own
   before/after string pair allowed by the chain specification?  *)
let spec_case (line : string) : string =
  match words line with
  | [ok; o; m; n] ->
      let old = bytes_of_hex o and msg = bytes_of_hex m and nw = bytes_of_hex n in
      if ErrSpec.add_spec (ok = "1") old msg nw then "ok"
      else if ok = "1" then
        "text is not <msg>: <old> although memory was available: got " ^ n ^ " expected "
        ^ hex_of_bytes (ErrSpec.render [msg; old])
      else "text is neither the full chain nor a marked truncation that keeps the old text: got " ^ n
  | _ -> failwith "bad spec line"

let engines = [ "errmsg", run_case; "errmsg-spec", spec_case ]
