(* engine "errmsg" (C16): one case per line: "<bufsz> <op> ..."
     A:<hex text or ->:<ok>   X:<ok>   C
   output per op: N | B<off>=<hex> | D<off>=<hex> | FAULT:<what> *)
open Util
open ErrModel

let bytes_of_hex (s : string) : BinNums.coq_N list =
  if s = "-" || s = "" then [] else
  Stdlib.List.init (String.length s / 2) (fun i -> n_of_hex (String.sub s (2 * i) 2))

let hex_of_bytes (l : BinNums.coq_N list) : string =
  String.concat "" (Stdlib.List.map (fun b -> Printf.sprintf "%02x" (int_of_n b)) l)

let parse_op (s : string) =
  match split_on ':' s with
  | ["A"; t; ok] -> OpAdd (Some (bytes_of_hex t), ok = "1")
  | ["X"; ok] -> OpAdd (None, ok = "1")
  | ["C"] -> OpClear
  | _ -> failwith ("bad op " ^ s)

let reg_name = function RBuf -> "buf" | RDyn -> "dyn" | RLbuf -> "lbuf"

let show_fault = function
  | OOB_read (r, i) -> Printf.sprintf "FAULT:oob-read:%s[%d]" (reg_name r) (int_of_nat i)
  | OOB_write (r, i) -> Printf.sprintf "FAULT:oob-write:%s[%d]" (reg_name r) (int_of_nat i)
  | PtrUnder r -> "FAULT:ptr-under:" ^ reg_name r
  | Stale -> "FAULT:stale-pointer"

let show_state (s : est) : string =
  match s.e_str with
  | None -> "N"
  | Some (r, off) ->
      (match err_str s with
       | Some (Some t) ->
           Printf.sprintf "%s%d=%s" (match r with RBuf -> "B" | RDyn -> "D" | RLbuf -> "L")
             (int_of_nat off) (hex_of_bytes t)
       | _ -> "FAULT:unterminated")

let show_res = function Ok s -> show_state s | Fault f -> show_fault f

(* lbuf_extra: VERIF_ERRMSG_LBUF_EXTRA=0 models the pinned tree (defect 13), default 2 = repaired *)
let lbuf_extra =
  match Sys.getenv_opt "VERIF_ERRMSG_LBUF_EXTRA" with Some s -> int_of_string s | None -> 2

let run_case (line : string) : string =
  match words line with
  | [] -> ""
  | bs :: ops ->
      let bufsz = int_of_string bs in
      let buf0 = Stdlib.List.init bufsz (fun _ -> n_of_int 35) in
      let tr = run_inst (nat_of_int lbuf_extra) buf0 (Stdlib.List.map parse_op ops) in
      String.concat " " (Stdlib.List.map show_res tr)

(* spec mode: "<ok> <old-hex|-> <msg-hex|-> <new-hex|->": is the implementation's own
   before/after string pair allowed by the chain specification?  *)
let spec_case (line : string) : string =
  match words line with
  | [ok; o; m; n] ->
      let old = bytes_of_hex o and msg = bytes_of_hex m and nw = bytes_of_hex n in
      if ErrSpec.add_spec (ok = "1") old msg nw then "ok"
      else if ok = "1" then
        "text is not <msg>: <old> although memory was available: got " ^ n ^ " expected "
        ^ hex_of_bytes (ErrSpec.render [msg; old])
      else "text is neither the full chain nor a marked truncation that keeps the old text: got " ^ n
  | _ -> failwith "bad spec line"

(* ---- statuses (StatusModel) ------------------------------------------------------------ *)
open StatusModel

let pinned = (Sys.getenv_opt "VERIF_C16_PINNED" = Some "1")
let hexu (z : BinNums.coq_Z) = hex_of_z z
let flag b = if b then "1" else "0"
let after_colon s = String.sub s 2 (String.length s - 2)

let status_case (line : string) : string =
  match line.[0] with
  | 'S' ->
      let s = z_of_hex (after_colon line) in
      let (k, m1) = addrxlat2kdump (s32 s) in
      let (a, m2) = kdump2addrxlat (u32 s) in
      Printf.sprintf "%s %s %s %s" (hexu (u32 k)) (flag m1) (hex_of_z a) (flag m2)
  | 'X' ->
      (* message crossing the boundary: the receiving chain is chain_step old text, byte for byte,
         and the sending context is cleared *)
      (match split_on ':' line with
       | [_; st; text; old] ->
           let s = z_of_hex st in
           let tb = bytes_of_hex text and ob = bytes_of_hex old in
           let (k, m1) = addrxlat2kdump (s32 s) in
           let (a, m2) = kdump2addrxlat (u32 s) in
           (* the driver sets errno = ENOMEM before the upward call *)
           let enomem = bytes_of_hex "43616e6e6f7420616c6c6f63617465206d656d6f7279" in
           let up = if m1 then ErrSpec.chain_step (sys_innermost k ob enomem) tb else ob in
           let down = if m2 then ErrSpec.chain_step ob tb else ob in
           let hx l = if l = [] then "-" else hex_of_bytes l in
           Printf.sprintf "%s %s 0 %s %s 0" (hexu (u32 k)) (hx up) (hex_of_z a) (hx down)
       | _ -> failwith "bad X")
  | 'O' ->
      let rs = Stdlib.List.map (fun t -> let s = z_of_hex t in (s, s <> BinNums.Z0))
                 (split_on ',' (after_colon line)) in
      let (st, m) = probe_loop rs in
      Printf.sprintf "%s %s" (hexu st) (flag m)
  | 'V' ->
      let n = int_of_string (after_colon line) in
      (match raw_post_hook (not pinned) (Stdlib.List.init n (fun _ -> BinNums.Z0)) with
       | St s -> Printf.sprintf "%s %s" (hexu s) (flag (s <> BinNums.Z0))
       | Undef -> "any (status variable never assigned)")
  | 'P' ->
      if after_colon line = "-1" then
        (let (st, m) = init_cpu_blob_attr (not pinned) BinNums.Z0 true true BinNums.Z0 in
         Printf.sprintf "%s %s" (hexu st) (flag m))
      else
        (* some allocation fails: every allocation on this path is mandatory *)
        (let (st, m) = init_cpu_blob_attr (not pinned) BinNums.Z0 true false BinNums.Z0 in
         if pinned then "any" else Printf.sprintf "%s %s" (hexu st) (flag m))
  | _ -> failwith "bad status case"

(* "<case> <fields of the implementation's answer>" *)
let statusspec_case (line : string) : string =
  match words line with
  | c :: f ->
      let pair st m = (z_of_hex st, m = "1") in
      let judge what r =
        if status_msg_ok r then "ok"
        else Printf.sprintf "%s returns status %s with%s error message: not (documented status, message iff failure)"
               what (hex_of_z (fst r)) (if snd r then " an" else "out an") in
      (match c.[0], f with
       | 'S', [k; m1; a; m2] ->
           let s = z_of_hex (after_colon c) in
           let in_k = addrxlat_doc s in
           let in_a = int_of_z s >= 0 && int_of_z s <= 9 in
           let r1 = if in_k then judge "addrxlat2kdump" (pair k m1) else "ok" in
           if r1 <> "ok" then r1
           else if in_a then
             (let az = z_of_hex a in
              if addrxlat_doc az && ((az <> BinNums.Z0) = (m2 = "1")) then "ok"
              else "kdump2addrxlat returns " ^ a ^ " msg=" ^ m2)
           else "ok"
       | 'X', [_; up; xl; _; down; kl] ->
           (* the chain spec across the boundary: the receiver gets chain_step old text byte for byte,
              the sender's string is cleared *)
           (match split_on ':' c with
            | [_; st; text; old] ->
                let tb = bytes_of_hex text and ob = bytes_of_hex old in
                let want = if z_of_hex st = BinNums.Z0 then ob else ErrSpec.chain_step ob tb in
                let hx l = if l = [] then "-" else hex_of_bytes l in
                (* fixes/108: ADDRXLAT_ERR_NOMEM (4) arrives as KDUMP_ERR_SYSTEM, and the library's convention
                   for a system error on an empty chain is to put strerror(errno) innermost; the driver sets
                   errno = ENOMEM before the call *)
                let want_up =
                  if z_of_hex st = BinNums.Z0 then ob
                  else ErrSpec.chain_step
                         (sys_innermost (fst (addrxlat2kdump (s32 (z_of_hex st)))) ob
                            (bytes_of_hex "43616e6e6f7420616c6c6f63617465206d656d6f7279")) tb in
                if up <> hx want_up then "addrxlat2kdump: the message arrives altered: got " ^ up ^ " expected " ^ hx want_up
                else if down <> hx want then "kdump2addrxlat: the message arrives altered: got " ^ down ^ " expected " ^ hx want
                else if xl <> "0" || kl <> "0" then "the sending context keeps its error string"
                else "ok"
            | _ -> "malformed X case")
       | 'O', st :: m :: _ -> judge "open (probe loop)" (pair st m)
       | 'V', st :: m :: _ -> judge "setting linux.vmcoreinfo.raw" (pair st m)
       | 'P', st :: m :: _ ->
           if after_colon c <> "-1" && z_of_hex st = BinNums.Z0 then
             "init_cpu_prstatus reports success although allocation " ^ after_colon c ^ " on its path failed"
           else judge "init_cpu_prstatus" (pair st m)
       | _ -> failwith "bad statusspec line")
  | _ -> failwith "bad statusspec line"

(* end-to-end oracle: "<op> <status>,<msg>,<xmsg>": the contract of one public API return
   (StatusModel.status_msg_ok; Properties_C16.C16_entry_point_contract) *)
let apispec_case (line : string) : string =
  match words line with
  | [op; t] ->
      (match split_on ',' t with
       | [st; m; x] ->
           let z = z_of_hex st in
           if not (kdump_doc z) then "status " ^ st ^ " is not a member of the documented enumeration"
           else if z <> BinNums.Z0 && m = "0" then "failure status " ^ st ^ " with an empty error string"
           else if z = BinNums.Z0 && m = "1" then "success, but an error string is left behind"
           else if not (status_msg_ok (z, m = "1")) then "contract broken"
           else if z = BinNums.Z0 && x = "1" then
             "success, but an error string is left behind in the translation context"
           else "ok"
       | _ -> if t = "?" then "ok" else "malformed answer " ^ t)
  | _ -> "malformed line"

(* pure-libaddrxlat histories: "<kind> <status> <prev hex|-> <new hex|-> [<msg hex>]"
   kind: e = entry point that clears first, v = void setter, E = addrxlat_ctx_err, C = clear_err *)
let axspec_case (line : string) : string =
  if line = "AXENTRIES" then
    String.concat " " (Stdlib.List.map (fun e ->
      let nm = function AxLaunch -> "addrxlat_launch" | AxStep -> "addrxlat_step" | AxWalk -> "addrxlat_walk"
        | AxSysOsInit -> "addrxlat_sys_os_init" | AxOp -> "addrxlat_op"
        | AxFulladdrConv -> "addrxlat_fulladdr_conv" | AxCtxErr -> "addrxlat_ctx_err" in
      nm e ^ ":" ^ (match ax_clears e with ClearsFirst -> "first" | ClearsVia e' -> "via-" ^ nm e'
                                          | SetsOnly -> "sets")) ax_entries)
  else match words line with
  | kind :: st :: prev :: nw :: rest ->
      let pb = bytes_of_hex prev and nb = bytes_of_hex nw in
      (match kind with
       | "e" ->
           let z = z_of_hex st in
           if not (addrxlat_doc z) then "status " ^ st ^ " is not a documented addrxlat status"
           else if z = BinNums.Z0 && nb <> [] then "success, but an error string is left behind"
           else if z <> BinNums.Z0 && nb = [] then "failure status " ^ st ^ " with an empty error string"
           else if not (ax_status_msg_ok (z, nb <> [])) then "contract broken"
           else "ok"
       | "v" -> if ErrSpec.list_eqb pb nb then "ok" else "a setter changed the error string"
       | "C" -> if nb = [] then "ok" else "addrxlat_ctx_clear_err left a string behind"
       | "E" ->
           let z = z_of_hex st in
           let msg = match rest with [m] -> bytes_of_hex m | _ -> [] in
           if z = BinNums.Z0 then (if ErrSpec.list_eqb pb nb then "ok" else "addrxlat_ctx_err(OK) changed the string")
           else if ErrSpec.list_eqb nb (ErrSpec.chain_step pb msg) then "ok"
           else "addrxlat_ctx_err did not prepend its message to the chain"
       | _ -> "malformed kind")
  | _ -> "malformed line"

let engines = [ "errmsg-axspec", axspec_case; "errmsg", run_case; "errmsg-spec", spec_case; "errmsg-apispec", apispec_case;
                "errmsg-status", status_case; "errmsg-statusspec", statusspec_case ]
